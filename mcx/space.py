"""
E1: bounded-exhaustive generators.  Every generator enumerates *all* elements
of a stated finite set, in size order, deterministically.

  types(k, leaves)         all complete types with exactly k nodes
  sequences(K, leaves)     all sequences of complete types with <= K nodes
  values(t)                the boundary value set of a type (reference values)
  assignments(ts)          value tuples for a sequence of types: the full
                           product when small, otherwise a covering family in
                           which every boundary value of every position occurs
  to_tx(t, v, style)       the same value as a txdbus user would pass it
  strings(alphabet, n)     all strings of length <= n
  interleavings(a, b, ok)  all merges of two ordered event lists
"""
import itertools
import functools

from mcx import refcodec as R
from mcx.refcodec import Var

FULL = 'ybnqiuxtdsogv'            # 'h' is handled separately (needs fd list)
REDUCED = 'yqutsgv'               # one per (alignment, size class)
KEYS_FULL = 'ybnqiuxtdsog'
KEYS_REDUCED = 'yqutsg'


@functools.lru_cache(maxsize=None)
def types(k, leaves=FULL):
    """All complete types with exactly k nodes (a node is one occurrence of a
    type code; a dict entry '{' counts as a node of its own)."""
    out = []
    if k == 1:
        return tuple((c, ()) for c in leaves)
    # array of a non-dict element
    for e in types(k - 1, leaves):
        out.append(('a', (e,)))
    # array of dict entries: a { key value }: 3 nodes + the value's nodes
    if k >= 4:
        keys = [c for c in leaves if c != 'v']
        for kc in keys:
            for v in types(k - 3, leaves):
                out.append(('a', (('{', ((kc, ()), v)),)))
    # structs with field node counts summing to k-1
    for parts in _compositions(k - 1):
        for fields in itertools.product(*[types(p, leaves) for p in parts]):
            out.append(('(', tuple(fields)))
    return tuple(out)


def _compositions(n):
    """ordered ways to write n as a sum of positive integers"""
    if n == 0:
        yield ()
        return
    for first in range(1, n + 1):
        for rest in _compositions(n - first):
            yield (first,) + rest


def sequences(K, leaves=FULL, min_types=1):
    """All sequences of complete types whose node counts sum to <= K."""
    for total in range(1, K + 1):
        for parts in _compositions(total):
            if len(parts) < min_types:
                continue
            for seq in itertools.product(*[types(p, leaves) for p in parts]):
                yield seq


def count_sequences(K, leaves=FULL):
    n = 0
    for total in range(1, K + 1):
        for parts in _compositions(total):
            m = 1
            for p in parts:
                m *= len(types(p, leaves))
            n += m
    return n


# ---------------------------------------------------------------------------
# boundary values (reference representation)

NAN = float('nan')
BASIC_VALUES = {
    'y': [0, 255, 0x7f],
    'b': [True, False],
    'n': [-2**15, 2**15 - 1, 0, -1],
    'q': [0, 2**16 - 1, 0x0102],
    'i': [-2**31, 2**31 - 1, 0, -1, 0x01020304],
    'u': [0, 2**32 - 1, 0x01020304],
    'x': [-2**63, 2**63 - 1, -1, 0x0102030405060708],
    't': [0, 2**64 - 1, 0x0102030405060708],
    'd': [0.0, -0.0, 1.5, float('inf'), float('-inf'), NAN, 5e-324,
          1.7976931348623157e308, -2.5e-7],
    's': ['', 'a', 'abc', 'abcd', 'é', '€uro', '\U0001f600', 'x' * 7,
          'line\r\nbreak'],
    'o': ['/', '/a', '/a/b_1', '/abc/def0/_'],
    'g': ['', 'i', 'a{sv}', '(ii)', 'aay'],
    'h': [5, 0, 7],
}
# variants: (signature, reference value) pairs whose txdbus presentation has
# exactly that inferred signature
VARIANT_VALUES = [
    Var('i', -5), Var('s', ''), Var('s', 'abc'), Var('b', True),
    Var('d', 1.5), Var('y', 200), Var('n', -3), Var('q', 65535),
    Var('u', 2**32 - 1), Var('x', -2**63), Var('t', 2**64 - 1),
    Var('o', '/a'), Var('g', 'a{sv}'), Var('x', 2**40),
    Var('ay', [1, 2, 3]), Var('ai', [1, 2]), Var('as', ['a', 'bc']),
    Var('av', []), Var('av', [Var('i', 1), Var('s', 'x')]),
    Var('a{sv}', []), Var('a{si}', [['k', 1]]),
    Var('(is)', [7, 'z']), Var('(y(dt))', [1, [2.5, 9]]),
    Var('ad', [0.5]), Var('aas', [['a'], []]), Var('a(ii)', [[1, 2], [3, 4]]),
    Var('a{sv}', [['k', Var('s', 'v')], ['l', Var('i', 4)]]),
]
# variants a *foreign* encoder may produce but txdbus's inference never would
FOREIGN_VARIANT_VALUES = [
    Var('u', 7), Var('(ii)', [1, 2]), Var('v', Var('v', Var('y', 1))),
    Var('a{yv}', [[1, Var('d', 0.5)]]), Var('at', [2**64 - 1, 0]),
    Var('(sa(yy)g)', ['p', [[1, 2]], 'ay']), Var('n', -2**15), Var('aq', []),
    Var('a{uu}', []), Var('ax', []), Var('b', False), Var('o', '/'),
]


def _dedup_keys(vals):
    out, seen = [], []
    for v in vals:
        if isinstance(v, float) and v != v:
            continue
        if any(v == s for s in seen):
            continue
        seen.append(v)
        out.append(v)
    return out


@functools.lru_cache(maxsize=None)
def values(t, width=2):
    """Boundary value list of a type, simplest first."""
    c, ch = t
    if c == 'v':
        return tuple(VARIANT_VALUES)
    if c in BASIC_VALUES:
        return tuple(BASIC_VALUES[c])
    if c == 'a':
        et = ch[0]
        if et[0] == '{':
            ks = _dedup_keys(values(et[1][0]))
            vs = values(et[1][1])
            out = [[]]
            out.append([[ks[0], vs[0]]])
            if len(ks) > 1:
                out.append([[ks[i], vs[(i + 1) % len(vs)]]
                            for i in range(min(len(ks), 3))])
            if len(vs) > 2:
                out.append([[ks[-1], vs[-1]]])
            return tuple(_freeze(x) for x in out)
        ev = values(et)
        out = [[], [ev[0]], [ev[-1], ev[0]]]
        if len(ev) > 2:
            out.append([ev[i] for i in range(1, min(len(ev), 4))])
        if len(ev) > 4:
            out.append(list(ev[4:8]))
        return tuple(_freeze(x) for x in out)
    if c == '(':
        return tuple(_freeze(list(a)) for a in assignments(ch, cap=6))
    raise ValueError(t)


def _freeze(x):
    # lists are unhashable for lru_cache; store as tuples, thaw on use
    if isinstance(x, list):
        return tuple(_freeze(i) for i in x)
    return x


def thaw(x):
    if isinstance(x, tuple):
        return [thaw(i) for i in x]
    if isinstance(x, Var):
        return Var(x.sig, thaw(x.value))
    return x


def assignments(ts, cap=24):
    """Value tuples for the type sequence ts.  If the full product of the
    boundary sets has at most `cap` elements it is returned; otherwise a
    covering family: tuple number i takes value (i + j) mod len at position j,
    for i up to the largest boundary set - every boundary value of every
    position occurs, in varying company."""
    sets = [values(t) for t in ts]
    n = 1
    for s in sets:
        n *= len(s)
    if n <= cap:
        return [tuple(a) for a in itertools.product(*sets)]
    m = max(len(s) for s in sets)
    out = []
    for i in range(m):
        out.append(tuple(s[(i + j) % len(s)] for j, s in enumerate(sets)))
    # plus the all-first and all-last corners
    out.append(tuple(s[0] for s in sets))
    out.append(tuple(s[-1] for s in sets))
    seen, uniq = set(), []
    for a in out:
        k = repr(a)
        if k not in seen:
            seen.add(k)
            uniq.append(a)
    return uniq


# ---------------------------------------------------------------------------
# txdbus presentations of a reference value

class _Ordered:
    """A struct given as an object that declares its field order."""

    def __init__(self, fields):
        self.dbusOrder = []
        for i, f in enumerate(fields):
            name = 'f%d' % i
            setattr(self, name, f)
            self.dbusOrder.append(name)


class _OrderedSeq(tuple):
    """A struct given as a tuple subclass (as namedtuple subclasses are)
    that declares its field order: the sequence content is in another order
    than the declared one, so positional use shows."""

    def __new__(cls, fields):
        self = tuple.__new__(cls, tuple(reversed(fields)))
        self.dbusOrder = []
        for i, f in enumerate(fields):
            setattr(self, 'f%d' % i, f)
            self.dbusOrder.append('f%d' % i)
        return self


class _OrderedList(list):
    """the same as a list subclass with attributes"""

    def __init__(self, fields):
        list.__init__(self, reversed(fields))
        self.dbusOrder = []
        for i, f in enumerate(fields):
            setattr(self, 'f%d' % i, f)
            self.dbusOrder.append('f%d' % i)


class _OddStr(str):
    """a str subclass whose textual rendering is not its content (as the
    members of `class Color(str, enum.Enum)` are)"""

    def __str__(self):
        return 'Odd.str'

    def __format__(self, spec):
        return 'Odd.format'

    def __repr__(self):
        return 'OddStr(%s)' % str.__repr__(self)


class _OddInt(int):
    def __str__(self):
        return 'Odd.int'

    def __repr__(self):
        return 'OddInt(%s)' % int.__repr__(self)

    def __format__(self, spec):
        return 'Odd.format'


class _OddFloat(float):
    def __str__(self):
        return 'Odd.float'

    def __repr__(self):
        return 'OddFloat(%s)' % float.__repr__(self)


class _SubList(list):
    def __repr__(self):
        return 'SubList(%s)' % list.__repr__(self)


class _SubDict(dict):
    def __repr__(self):
        return 'SubDict(%s)' % dict.__repr__(self)


import collections as _collections
_NT = _collections.namedtuple('NT', 'x y')

ODD_ENV = {'NT': _NT, 'OddStr': _OddStr, 'OddInt': _OddInt, 'OddFloat': _OddFloat,
           'SubList': _SubList, 'SubDict': _SubDict}


STYLES = ('list', 'tuple', 'object+pairs', 'wrapped', 'subclassed')


def to_tx(t, v, style='list'):
    """Reference value -> what a txdbus caller passes.
      list          structs as lists, dict arrays as dict
      tuple         structs and arrays as tuples, dict arrays as dict
      object+pairs  structs as objects with dbusOrder, dict arrays as a list
                    of pairs, byte arrays as bytearray
      wrapped       integers / paths / signatures in their wrapper classes
      subclassed    subclasses of the built-in types: structs as tuple /
                    list subclasses that declare their field order (content
                    in another order), arrays as list subclasses, dict
                    arrays as OrderedDict / dict subclasses, strings,
                    integers and doubles as subclasses whose str() is not
                    their value
    """
    from txdbus import marshal as M
    c, ch = t
    if c == 'v':
        return _variant_tx(v)
    if c == 'a':
        et = ch[0]
        if et[0] == '{':
            kt, vt = et[1]
            pairs = [(to_tx(kt, k, style), to_tx(vt, x, style)) for k, x in v]
            if style == 'object+pairs':
                return [list(p) for p in pairs]
            if style == 'subclassed':
                import collections
                return collections.OrderedDict(pairs) if len(pairs) % 2 \
                    else _SubDict(pairs)
            return dict(pairs)
        items = [to_tx(et, x, style) for x in v]
        if et[0] == 'y' and style == 'object+pairs':
            return bytearray(items)
        if style == 'tuple':
            return tuple(items)
        if style == 'subclassed':
            return _SubList(items)
        return items
    if c == '(':
        fields = [to_tx(ft, fv, style) for ft, fv in zip(ch, v)]
        if style == 'tuple':
            return tuple(fields)
        if style == 'object+pairs':
            return _Ordered(fields)
        if style == 'subclassed':
            return _OrderedSeq(fields) if len(fields) % 2 == 0 \
                else _OrderedList(fields)
        return fields
    if style == 'wrapped' and c in M.variantClassMap:
        return M.variantClassMap[c](v)
    if style == 'subclassed':
        if c in 'sog':
            return _OddStr(v)
        if c in 'ynqiuxth':
            return _OddInt(v)
        if c == 'd':
            return _OddFloat(v)
    return v


def _variant_tx(var):
    """A Python value whose *documented* inferred signature is var.sig."""
    from txdbus import marshal as M
    t = R.single_type(var.sig)
    return _infer_tx(t, var.value)


def _infer_tx(t, v):
    from txdbus import marshal as M
    c, ch = t
    if c == 'v':
        return _variant_tx(v)
    if c in ('b', 'd', 's'):
        return v
    if c == 'i':
        return v
    if c == 'x':
        if -2**31 <= v < 2**31:
            return M.Int64(v)
        return v
    if c in M.variantClassMap:
        return M.variantClassMap[c](v)
    if c == 'a':
        et = ch[0]
        if et[0] == 'y':
            return bytearray(v)
        if et[0] == '{':
            return {_infer_tx(et[1][0], k): _infer_tx(et[1][1], x)
                    for k, x in v}
        return [_infer_tx(et, x) for x in v]
    if c == '(':
        return tuple(_infer_tx(ft, fv) for ft, fv in zip(ch, v))
    raise ValueError(t)


def sig_of(ts):
    return ''.join(R.to_sig(t) for t in ts)


def nontrivial(ts):
    """A case is non-trivial when it has a container, a variant or needs
    padding somewhere (more than one type, or an aligned type)."""
    return len(ts) > 1 or any(t[0] in 'a(v' for t in ts)


# ---------------------------------------------------------------------------
# strings, interleavings, cut sets

def strings(alphabet, maxlen, minlen=0):
    for n in range(minlen, maxlen + 1):
        for tup in itertools.product(alphabet, repeat=n):
            yield ''.join(tup)


def interleavings(a, b):
    """All merges of sequences a and b that keep each one's order."""
    if not a:
        yield list(b)
        return
    if not b:
        yield list(a)
        return
    for rest in interleavings(a[1:], b):
        yield [a[0]] + rest
    for rest in interleavings(a, b[1:]):
        yield [b[0]] + rest


def cut_sets(n, k, near=None, window=0):
    """All sets of k cut positions in 1..n-1; if `near` is given only
    positions within `window` of one of those points are used."""
    pos = range(1, n)
    if near is not None:
        pos = [p for p in pos if any(abs(p - q) <= window for q in near)]
    return itertools.combinations(pos, k)


def chunks(data, cuts):
    out, prev = [], 0
    for c in cuts:
        out.append(data[prev:c])
        prev = c
    out.append(data[prev:])
    return out
