"""
The input space shared by C01 (round trip) and C02 (wire format): all
signature sequences up to K nodes x boundary-value assignments x presentation
styles x both byte orders x start offsets 0..7, plus deterministic deep / long
families and descriptor ('h') cases.  `run_space` partitions it over the pool
and applies a per-case oracle supplied by the check.
"""
from mcx import core, space, refcodec as R
from mcx.refcodec import Var

FILL = 0xAA


def styles_for(ts):
    s = ['list']
    flat = space.sig_of(ts)
    if any(c in flat for c in 'a('):
        s += ['tuple', 'object+pairs']
    if any(c in flat for c in 'ynqiuxtog'):
        s.append('wrapped')
    if any(c in flat for c in 'a(ynqiuxtogsd'):
        s.append('subclassed')
    return s


def deep_families():
    """(signature, reference values) pairs beyond the node bound."""
    out = []
    # deepest legal nesting
    v = 7
    for _ in range(32):
        v = [v]
    out.append(('a' * 32 + 'y', [v]))
    v = [0x0102030405060708]
    for _ in range(31):
        v = [v]
    out.append(('(' * 32 + 't' + ')' * 32, [v]))
    # 32 arrays around 32 structs, one element each
    v = ['deep', 1.5]
    sig = '(sd)'
    for _ in range(31):
        v = [v]
        sig = '(' + sig + ')'
    for _ in range(32):
        v = [v]
        sig = 'a' + sig
    out.append((sig, [v]))
    # a 255-byte signature of many arguments with every alignment
    unit = 'yqusxgdbnto'
    sig = (unit * 24)[:255]
    vals = []
    for c in sig:
        vals.append(space.BASIC_VALUES[c][1 % len(space.BASIC_VALUES[c])])
    out.append((sig, vals))
    # long arrays / strings: padding and lengths beyond one byte
    out.append(('ay', [list(range(256)) * 3]))
    out.append(('as', [['s%d' % i * (i % 5) for i in range(70)]]))
    out.append(('a{sv}', [[['k%d' % i, Var('i', i)] for i in range(40)]]))
    out.append(('s', ['€' * 300]))
    out.append(('a(yt)', [[[i, 2**64 - 1 - i] for i in range(33)]]))
    out.append(('aad', [[[0.5] * i for i in range(6)]]))
    out.append(('a(ya(ys))', [[[1, [[2, 'x'], [3, 'yz']]], [4, []]]]))
    out.append(('a{ya{sa{yv}}}',
                [[[1, [['k', [[2, Var('s', 'deep')]]]]]]]))
    out.append(('ayay', [[], [1]]))
    out.append(('yayt', [1, [], 2]))
    out.append(('axa(yx)', [[], [[1, 70000]]]))
    return out


def partition(K_full, K_reduced, nparts):
    """Task descriptions; every task enumerates the whole space and keeps the
    cases whose index is congruent to its own number."""
    return [(K_full, K_reduced, nparts, i) for i in range(nparts)]


def cases_of(task):
    K_full, K_reduced, nparts, me = task
    idx = 0
    seen_full = K_full
    for ts in space.sequences(K_full, space.FULL):
        if idx % nparts == me:
            yield ts
        idx += 1
    for ts in space.sequences(K_reduced, space.REDUCED):
        # skip what the full alphabet already covered
        if sum(_nodes(t) for t in ts) <= seen_full:
            continue
        if idx % nparts == me:
            yield ts
        idx += 1


def _nodes(t):
    return 1 + sum(_nodes(c) for c in t[1])


def total_sequences(K_full, K_reduced):
    n = space.count_sequences(K_full, space.FULL)
    if K_reduced > K_full:
        n += (space.count_sequences(K_reduced, space.REDUCED)
              - space.count_sequences(K_full, space.REDUCED))
    return n
