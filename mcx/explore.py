"""
E2: explicit-state exploration of event histories over *real* txdbus objects.

A scenario (subclass of Scenario, importable by name so that workers can
build it) closes the system: build() makes fresh real objects wired to fakes,
enabled() lists the environment events possible now, apply() performs one by
calling the real entry point and returns the violations the step oracle sees.

The search is breadth-first by history length and level-synchronous: the
parent process owns the set of canonical states seen; each level's frontier
is cut into batches handed to long-lived workers, which rebuild each parent
world by replaying its history on fresh objects (live Twisted objects do not
copy), apply every enabled event to a fresh replay, and send back
(history, canonical key, violations).  A state that violates is not expanded.
When the frontier empties before the depth bound the reachable abstract state
space was exhausted (reported exhaustive with 'fixpoint': True).
"""
import importlib
import multiprocessing

from mcx import core


class Scenario:
    """Interface; params is a JSON-able dict."""
    name = 'scenario'

    def __init__(self, params):
        self.params = params

    def build(self):
        raise NotImplementedError

    def enabled(self, world):
        raise NotImplementedError

    def apply(self, world, ev):
        """perform ev on world; return list of (signature, what)"""
        raise NotImplementedError

    def advance(self, world, ev):
        """perform ev while re-building a known-good prefix; scenarios whose
        step oracle is expensive override this with the bare mutation"""
        return self.apply(world, ev)

    def canon(self, world):
        """hashable canonical form, or None for no deduplication"""
        return None

    def deviation(self, ev):
        return 0

    def final(self, world):
        """oracle at quiescence; may destroy the world; list of violations"""
        return []

    def close(self, world):
        pass

    def nontrivial(self, hist):
        return len(hist) > 1

    def describe(self, hist):
        return [list(e) if isinstance(e, tuple) else e for e in hist]


_SCN_CACHE = {}


def _scenario(modname, clsname, params_key, params):
    key = (modname, clsname, params_key)
    s = _SCN_CACHE.get(key)
    if s is None:
        mod = importlib.import_module(modname)
        s = getattr(mod, clsname)(params)
        _SCN_CACHE[key] = s
    return s


def replay_history(scn, hist, check=False):
    """fresh world with hist applied; returns (world, violations)"""
    w = scn.build()
    out = []
    for ev in hist:
        if check:
            v = scn.apply(w, ev)
            if v:
                out.extend(v)
        else:
            scn.advance(w, ev)
    return w, out


def _expand_batch(task):
    modname, clsname, pkey, params, parents, max_dev, want_final, last = task
    scn = _scenario(modname, clsname, pkey, params)
    out = []
    for hist in parents:
        hist = tuple(hist)
        with core.Watchdog(60):
            try:
                w, _ = replay_history(scn, hist)
                evs = list(scn.enabled(w))
                scn.close(w)
            except core.ExecutionTimeout:
                out.append((hist, None, None,
                            [('%s/hang-on-replay' % scn.name,
                              'replaying %r did not finish' % (hist,))],
                            0, False))
                continue
        used = sum(scn.deviation(e) for e in hist)
        for ev in evs:
            d = scn.deviation(ev)
            if used + d > max_dev:
                continue
            child = hist + (ev,)
            viol = []
            key = None
            with core.Watchdog(60):
                try:
                    w, _ = replay_history(scn, hist)
                    try:
                        viol = list(scn.apply(w, ev) or [])
                    except core.ExecutionTimeout:
                        raise
                    except core.HarnessError:
                        raise
                    except Exception as e:
                        # an exception escaping the real entry point (or the
                        # oracle reading the library's output) on a history
                        # whose every prefix went through cleanly
                        import traceback
                        tb = traceback.extract_tb(e.__traceback__)
                        where = '%s:%s' % (tb[-1].filename.split('/')[-1],
                                           tb[-1].name) if tb else '?'
                        viol = [('%s/exception/%s/%s' % (scn.name,
                                                        type(e).__name__,
                                                        where),
                                 'event %r after %r raised %r at %s'
                                 % (ev, hist, e, where))]
                    if not viol:
                        key = scn.canon(w)
                        if want_final or last:
                            viol = list(scn.final(w) or [])
                    scn.close(w)
                except core.ExecutionTimeout:
                    viol = [('%s/hang' % scn.name,
                             'event %r after %r did not finish' % (ev, hist))]
            out.append((child, key, ev, viol, used + d,
                        scn.nontrivial(child)))
    return out


def explore(ctx, scn_cls, params, max_depth, max_dev=0, final_every=True,
            batch=None, label=None, max_states=None):
    """Runs the search; merges counts and violations into ctx.total.
    Returns a dict describing what was covered."""
    modname = scn_cls.__module__
    clsname = scn_cls.__name__
    pkey = repr(sorted(params.items()))
    scn = _scenario(modname, clsname, pkey, params)
    label = label or scn.name
    res = ctx.total

    try:
        w0 = scn.build()
        k0 = scn.canon(w0)
        scn.close(w0)
    except core.HarnessError:
        raise
    except Exception as e:
        import traceback
        tb = traceback.extract_tb(e.__traceback__)
        where = '%s:%s' % (tb[-1].filename.split('/')[-1], tb[-1].name) \
            if tb else '?'
        res.violation('%s/setup/%s/%s' % (scn.name, type(e).__name__, where),
                      'bringing the system into its initial state (default '
                      'schedule) raised %r at %s' % (e, where),
                      {'scenario': [modname, clsname], 'params': params,
                       'history': []}, size=0)
        res.count('states', 1)
        res.count('transitions', 1)
        ctx.part(label, setup_failed=True, params=params)
        return {'setup_failed': True}
    seen = set()
    if k0 is not None:
        seen.add(k0)
    frontier = [()]
    states = 1
    transitions = 0
    depth = 0
    nontrivial = 0
    fixpoint = False
    capped = False
    pool = None
    jobs = ctx.jobs
    if jobs > 1:
        pool = multiprocessing.get_context('fork').Pool(jobs)
    try:
        while frontier and depth < max_depth:
            depth += 1
            last = depth == max_depth
            if ctx.seed:
                k = ctx.seed % len(frontier)
                frontier = frontier[k:] + frontier[:k]
            bs = batch or max(1, min(64, len(frontier) // (jobs * 4) or 1))
            tasks = [(modname, clsname, pkey, params, frontier[i:i + bs],
                      max_dev, final_every, last)
                     for i in range(0, len(frontier), bs)]
            if pool is None:
                results = map(core._pool_entry,
                              [(_expand_batch, t) for t in tasks])
            else:
                results = pool.imap_unordered(
                    core._pool_entry, [(_expand_batch, t) for t in tasks])
            nxt = []
            level = []
            for st, r in results:
                if st == 'err':
                    raise core.HarnessError('explorer task failed:\n' + r)
                if st == 'hang':
                    res.merge(core._hang_result(r))
                    continue
                level.extend(r)
            # process the level in a fixed order, whatever order the workers
            # finished in: the representative history of a state (and with it
            # every count) is then the same in every run
            level.sort(key=lambda x: repr(x[0]))
            for r in (level,):
                for child, key, ev, viol, dev, nt in r:
                    transitions += 1
                    if nt:
                        nontrivial += 1
                    res.setmax('max_deviations', dev)
                    if viol:
                        for sig, what in viol:
                            res.violation(
                                sig, what,
                                {'scenario': [modname, clsname],
                                 'params': params,
                                 'history': scn.describe(child)},
                                size=len(child))
                        continue
                    if key is None:
                        nxt.append(child)
                        states += 1
                    elif key not in seen:
                        seen.add(key)
                        nxt.append(child)
                        states += 1
                    if transitions % 997 == 1:
                        res.sample({'scenario': label,
                                    'history': scn.describe(child)})
            # deterministic order whatever the completion order was
            nxt.sort(key=repr)
            frontier = nxt
            if max_states and states > max_states:
                capped = True
                break
        if not frontier:
            fixpoint = True
    finally:
        if pool is not None:
            pool.terminate()
            pool.join()
    res.count('states', states)
    res.count('transitions', transitions)
    res.count('traces', transitions)
    res.count('evaluations', transitions)
    res.count('nontrivial', nontrivial)
    res.setmax('max_depth', depth)
    info = {'states': states, 'transitions': transitions,
            'depth_completed': depth, 'fixpoint': fixpoint,
            'max_deviations': max_dev, 'params': params}
    if capped:
        ctx.cap('%s: stopped after %d states (cap %d) at depth %d'
                % (label, states, max_states, depth))
    elif not fixpoint:
        info['note'] = ('all histories of length <= %d explored; frontier '
                        'not empty (no fixpoint)' % depth)
    ctx.part(label, **info)
    return info


def replay_violation(data):
    """Re-executes a recorded history with plain calls; returns the
    violations seen (list of (signature, what))."""
    modname, clsname = data['scenario']
    params = data['params']
    mod = importlib.import_module(modname)
    scn = getattr(mod, clsname)(params)
    hist = [tuple(e) if isinstance(e, list) else e for e in data['history']]
    hist = [_retuple(e) for e in hist]
    try:
        w = scn.build()
    except Exception as e:
        return [('%s/setup/%s' % (scn.name, type(e).__name__),
                 'initial state raised %r' % (e,))]
    out = []
    for i, ev in enumerate(hist):
        v = scn.apply(w, ev)
        if v:
            out.extend(v)
            break
    else:
        out.extend(scn.final(w) or [])
    scn.close(w)
    return out


def _retuple(x):
    if isinstance(x, list):
        return tuple(_retuple(i) for i in x)
    return x


# ---------------------------------------------------------------------------
# generic digest of implementation state

def impl_digest(*roots, ignore=()):
    """Canonical, hashable summary of every value reachable from `roots`
    through objects whose class is defined in a txdbus module (plus plain
    containers).  Used as part of canon(): two worlds with equal digests hold
    equal values in every field the library can read.  Deferreds are reduced
    to called/uncalled, delayed calls to (time, active), functions/methods to
    their qualified name."""
    seen = {}
    out = []

    def walk(v, depth):
        if depth > 12:
            return '...'
        if v is None or isinstance(v, (bool, int, float, str, bytes)):
            return v if not isinstance(v, bytes) or len(v) < 64 else \
                ('bytes', len(v), hash(v))
        if isinstance(v, (list, tuple)):
            return tuple(walk(x, depth + 1) for x in v)
        if isinstance(v, (set, frozenset)):
            return ('set',) + tuple(sorted(repr(walk(x, depth + 1))
                                           for x in v))
        if isinstance(v, dict):
            return ('dict',) + tuple(sorted(
                (repr(walk(k, depth + 1)), repr(walk(x, depth + 1)))
                for k, x in v.items()))
        cls = type(v)
        mod = getattr(cls, '__module__', '') or ''
        name = cls.__name__
        if name == 'Deferred':
            return ('Deferred', bool(getattr(v, 'called', False)))
        if name == 'DelayedCall':
            return ('DelayedCall', round(v.getTime(), 6), v.active())
        if callable(v) and hasattr(v, '__qualname__'):
            owner = getattr(v, '__self__', None)
            if owner is not None and (getattr(type(owner), '__module__', '')
                                      or '').startswith('txdbus'):
                # a bound method of a library object: which object matters
                return ('method', v.__qualname__, walk(owner, depth + 1))
            return ('fn', v.__qualname__)
        if mod.startswith('txdbus'):
            i = id(v)
            if i in seen:
                return ('ref', seen[i])
            seen[i] = len(seen)
            d = getattr(v, '__dict__', None)
            if d is None:
                slots = getattr(cls, '__slots__', ())
                d = {s: getattr(v, s, None) for s in slots}
            items = []
            for k in sorted(d):
                if k in ignore:
                    continue
                items.append((k, walk(d[k], depth + 1)))
            return (name,) + tuple(items)
        if name in ('WeakValueDictionary',):
            return ('weak', len(v))
        return ('opaque', name)

    for r in roots:
        out.append(walk(r, 0))
    return repr(tuple(out))
