"""
Shared plumbing for the checks: result accumulation, worker pool, per-execution
watchdog, violation signatures / replay files, known-findings matching and
the evidence writer.

Nothing in here knows anything about txdbus.
"""
import hashlib
import json
import multiprocessing
import os
import signal
import sys
import time
import traceback

HERE = os.path.dirname(os.path.dirname(os.path.abspath(__file__)))
REPLAY_DIR = os.path.join(HERE, 'replays')
EVIDENCE_DIR = os.path.join(HERE, 'evidence')
FINDINGS_FILE = os.path.join(HERE, 'known_findings.txt')

MAX_SAMPLES = 6
MAX_OUTCOMES = 5000
MAX_REPORTED = 12


class HarnessError(Exception):
    """The machinery itself is wrong (non-determinism, bad replay, ...).
    Never reported as a VIOLATION; exit status 2."""


class ExecutionTimeout(BaseException):
    """Raised by the watchdog inside a worker when one execution of library
    code does not come back (BaseException so that library `except Exception`
    blocks do not swallow it)."""


class Watchdog:
    """Wall-clock guard around a single execution of library code.  Only used
    to turn a hang caused by a change to the library into a reported violation
    instead of a stuck check; the limit is far above any normal execution."""

    def __init__(self, seconds=20.0):
        self.seconds = seconds

    def _fire(self, signum, frame):
        raise ExecutionTimeout('execution exceeded %.0fs' % self.seconds)

    def __enter__(self):
        self._old = signal.signal(signal.SIGALRM, self._fire)
        self._t0 = time.time()
        self._outer = signal.setitimer(signal.ITIMER_REAL, self.seconds)[0]
        return self

    def __exit__(self, *exc):
        signal.setitimer(signal.ITIMER_REAL, 0)
        signal.signal(signal.SIGALRM, self._old)
        if self._outer:
            # re-arm the enclosing (per-task) limit with what is left of it
            left = max(self._outer - (time.time() - self._t0), 1.0)
            signal.setitimer(signal.ITIMER_REAL, left)
        return False


class Result:
    """Mergeable accumulator; one per task, merged into the run's total."""

    def __init__(self):
        self.counts = {}
        self.violations = {}   # signature -> dict(what, replay, size)
        self.samples = []
        self.outcomes = set()
        self.notes = []

    def count(self, key, n=1):
        self.counts[key] = self.counts.get(key, 0) + n

    def setmax(self, key, v):
        if v > self.counts.get(key, -1):
            self.counts[key] = v

    def sample(self, obj):
        if len(self.samples) < MAX_SAMPLES:
            self.samples.append(obj)

    def outcome(self, key):
        if len(self.outcomes) < MAX_OUTCOMES:
            self.outcomes.add(key)

    def violation(self, signature, what, replay, size=0):
        """Record a violation.  The first (smallest) instance per signature is
        kept."""
        old = self.violations.get(signature)
        if old is None or size < old['size']:
            self.violations[signature] = {
                'what': what, 'replay': replay, 'size': size}
        self.count('violating_cases')

    def merge(self, other, maxkeys=('max_depth', 'max_deviations',
                                    'max_frontier')):
        for k, v in other.counts.items():
            if k in maxkeys or k.startswith('max_'):
                self.setmax(k, v)
            else:
                self.count(k, v)
        for sig, v in other.violations.items():
            old = self.violations.get(sig)
            if old is None or v['size'] < old['size']:
                self.violations[sig] = v
        for s in other.samples:
            self.sample(s)
        for o in other.outcomes:
            self.outcome(o)
        self.notes.extend(other.notes)


# ---------------------------------------------------------------------------
# worker pool

_POOL_FUNC = None


TASK_TIMEOUT = float(os.environ.get('VERIF_TASK_TIMEOUT', '0')) or None


def _task_alarm(signum, frame):
    raise ExecutionTimeout('task exceeded its time limit')


def _pool_entry(arg):
    """Runs one task.  A task that does not come back within the (very
    generous) task time limit - a change to the library made some call loop -
    is reported as a 'hang' result instead of stalling the whole check."""
    func, task = arg
    limit = TASK_TIMEOUT or (900.0 if os.environ.get('VERIF_TIER_RUNNING')
                             == 'quick' else 5400.0)
    old = signal.signal(signal.SIGALRM, _task_alarm)
    signal.setitimer(signal.ITIMER_REAL, limit)
    try:
        return ('ok', func(task))
    except ExecutionTimeout as e:
        tb = traceback.extract_tb(e.__traceback__)
        lib = [f for f in tb if '/txdbus/' in f.filename]
        where = '%s:%s' % (lib[-1].filename.split('/')[-1], lib[-1].name) \
            if lib else '%s:%s' % (tb[-1].filename.split('/')[-1],
                                   tb[-1].name)
        return ('hang', (where, ''.join(traceback.format_list(tb[-6:])),
                         repr(task)[:300]))
    except BaseException:
        return ('err', traceback.format_exc())
    finally:
        signal.setitimer(signal.ITIMER_REAL, 0)
        signal.signal(signal.SIGALRM, old)


def _hang_result(info, limit_note=''):
    where, stack, task = info
    r = Result()
    r.violation('hang/%s' % where,
                'a task did not finish within its time limit; it was in %s '
                '(task %s)\n%s' % (where, task, stack),
                {'kind': 'hang', 'where': where, 'task': task}, size=0)
    return r


def run_tasks(func, tasks, jobs, total=None, seed=0):
    """Runs func(task) for every task on a pool of long-lived worker processes
    and yields the results (Result objects) as they complete.  The order in
    which tasks are handed out is rotated by `seed`; the set is unchanged."""
    tasks = list(tasks)
    if tasks and seed:
        k = seed % len(tasks)
        tasks = tasks[k:] + tasks[:k]
    if jobs <= 1 or len(tasks) <= 1:
        for t in tasks:
            st, r = _pool_entry((func, t))
            if st == 'err':
                raise HarnessError('task failed:\n' + r)
            if st == 'hang':
                r = _hang_result(r)
            yield r
        return
    ctx = multiprocessing.get_context('fork')
    with ctx.Pool(min(jobs, len(tasks))) as pool:
        for st, r in pool.imap_unordered(
                _pool_entry, [(func, t) for t in tasks], chunksize=1):
            if st == 'err':
                pool.terminate()
                raise HarnessError('task failed:\n' + r)
            if st == 'hang':
                r = _hang_result(r)
            yield r


# ---------------------------------------------------------------------------
# known findings

def load_findings():
    """known_findings.txt, one entry per line:
         known: property=<id> sig=<signature> :: <what fails>
         fixed: property=<id> <commit> <what failed>
       `fixed` lines are documentation only - they suppress nothing."""
    known = {}
    if not os.path.exists(FINDINGS_FILE):
        return known
    with open(FINDINGS_FILE) as f:
        for line in f:
            line = line.strip()
            if not line.startswith('known:'):
                continue
            body = line[len('known:'):].strip()
            head, _, what = body.partition('::')
            parts = head.split()
            prop = sig = None
            for p in parts:
                if p.startswith('property='):
                    prop = p[len('property='):]
                elif p.startswith('sig='):
                    sig = p[len('sig='):]
            if prop and sig:
                known[(prop, sig)] = what.strip()
    return known


# ---------------------------------------------------------------------------
# the run context

class Ctx:
    def __init__(self, prop_id, tier, seed, jobs):
        self.prop_id = prop_id
        self.tier = tier
        self.quick = tier == 'quick'
        self.seed = seed
        self.jobs = jobs
        self.total = Result()
        self.t0 = time.time()
        self.assumptions = []
        self.rule = ''
        self.bounds = {}
        self.exhaustive = True
        self.caps = []
        self.level = 'model_checking'
        self.parts = {}

    def merge(self, r):
        self.total.merge(r)

    def map(self, func, tasks):
        for r in run_tasks(func, tasks, self.jobs, seed=self.seed):
            self.merge(r)

    def part(self, name, **info):
        """Record what one sub-scenario of the check covered."""
        self.parts[name] = info

    def cap(self, text):
        self.caps.append(text)
        self.exhaustive = False

    # -- reporting -----------------------------------------------------------

    def finish(self):
        """Writes replay files, prints KNOWN-FINDING / VIOLATION lines, writes
        the evidence file; returns the exit status."""
        known = load_findings()
        new = 0
        os.makedirs(REPLAY_DIR, exist_ok=True)
        seen_known = set()
        order = sorted(self.total.violations,
                       key=lambda s: (self.total.violations[s]['size'], s))
        for sig in order:
            v = self.total.violations[sig]
            if (self.prop_id, sig) in known:
                seen_known.add(sig)
                continue
            new += 1
            if new > MAX_REPORTED:
                continue
            h = hashlib.sha1(sig.encode()).hexdigest()[:10]
            path = os.path.join(REPLAY_DIR, '%s-%s.json' % (self.prop_id, h))
            with open(path, 'w') as f:
                json.dump({'property': self.prop_id, 'signature': sig,
                           'what': v['what'], 'replay': v['replay']},
                          f, indent=1, default=repr)
            print('  signature: %s' % sig)
            print('  what: %s' % (v['what'],))
            print('VIOLATION property=%s replay=%s' % (self.prop_id, path))
        if new > MAX_REPORTED:
            print('  (+%d further distinct violation signatures not written '
                  'out)' % (new - MAX_REPORTED))
        for sig in sorted(seen_known):
            print('KNOWN-FINDING: property=%s %s [sig=%s]'
                  % (self.prop_id, known[(self.prop_id, sig)], sig))
        self._write_evidence(new, len(seen_known))
        return 1 if new else 0

    def _write_evidence(self, new, known):
        c = dict(self.total.counts)
        cov = {
            'states': int(c.get('states', 0)),
            'transitions': int(c.get('transitions', 0)),
            'traces_validated_against_impl': int(
                c.get('traces', c.get('evaluations', 0))),
            'evaluations': int(c.get('evaluations', c.get('transitions', 0))),
            'distinct_nontrivial': int(c.get('nontrivial', 0)),
            'distinct_outcomes': len(self.total.outcomes) or int(c.get('states', 0)),
            'rule': self.rule,
            'samples': self.total.samples or ['(none)'],
            'exhaustive': bool(self.exhaustive),
            'bounds': self.bounds,
            'caps_hit': self.caps,
            'parts': self.parts,
            'counters': c,
            'known_findings_seen': known,
        }
        ev = {
            'property_id': self.prop_id,
            'tier': self.tier,
            'seed': int(self.seed),
            'level': self.level,
            'coverage': cov,
            'assumptions': self.assumptions,
            'wall_s': round(time.time() - self.t0, 2),
            'violations': int(new),
        }
        os.makedirs(EVIDENCE_DIR, exist_ok=True)
        path = os.path.join(EVIDENCE_DIR, self.prop_id + '.json')
        tmp = path + '.tmp'
        with open(tmp, 'w') as f:
            json.dump(ev, f, indent=1, default=repr)
        os.replace(tmp, path)
        print('[%s %s] states=%d transitions=%d evaluations=%d nontrivial=%d '
              'outcomes=%d exhaustive=%s violations=%d known=%d wall=%.1fs'
              % (self.prop_id, self.tier, cov['states'], cov['transitions'],
                 cov['evaluations'], cov['distinct_nontrivial'],
                 cov['distinct_outcomes'], cov['exhaustive'], new, known,
                 ev['wall_s']))
        sys.stdout.flush()
