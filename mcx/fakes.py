"""
The environment of a txdbus protocol object, owned by the explorer: a
transport that only records, a virtual clock, and helpers that bring real
protocol objects into a given state by feeding them real bytes.
"""
import binascii
import os
import struct

from twisted.internet import interfaces, task
from twisted.internet.protocol import Factory
from twisted.python import failure
from twisted.internet import error as tierror
from zope.interface import implementer

from mcx import refcodec as R


class FakeSocket:
    def __init__(self, creds):
        self.creds = creds

    def getsockopt(self, level, opt, size=None):
        return struct.pack('3i', *self.creds)


@implementer(interfaces.ITransport)
class FakeTransport:
    """Records everything the protocol does to its transport.

    log entries: ('w', bytes) | ('fd', fd) | ('lose',)
    """
    unix = False

    def __init__(self, creds=None):
        self.log = []
        self.disconnecting = False
        self.connected = True
        self.lost = False
        self.taken = 0         # how much of the written stream was consumed
        # a fixed pid: the value ends up in protocol state and must not
        # differ between worker processes (state digests are compared
        # across them)
        self.socket = FakeSocket(creds or (4242, os.getuid(), os.getgid()))

    # ITransport
    def write(self, data):
        if not isinstance(data, (bytes, bytearray)):
            raise TypeError('transport.write needs bytes, got %r'
                            % type(data))
        self.log.append(('w', bytes(data)))

    def writeSequence(self, seq):
        for d in seq:
            self.write(d)

    def loseConnection(self):
        self.disconnecting = True
        self.log.append(('lose',))

    def getPeer(self):
        return None

    def getHost(self):
        return None

    # helpers for the harness
    def written(self):
        return b''.join(e[1] for e in self.log if e[0] == 'w')

    def take(self):
        """bytes written since the previous take()"""
        w = self.written()
        out = w[self.taken:]
        self.taken = len(w)
        return out

    def written_after_loss(self):
        return getattr(self, '_after_loss', 0)


@implementer(interfaces.IUNIXTransport)
class FakeUnixTransport(FakeTransport):
    unix = True

    def sendFileDescriptor(self, fd):
        self.log.append(('fd', fd))


class _PlainUnixTransport(FakeTransport):
    unix = True

    def sendFileDescriptor(self, fd):
        self.log.append(('fd', fd))


def wrapped_unix_transport(*a, **kw):
    """a UNIX transport that provides IUNIXTransport as an instance, not
    through its class - what twisted.protocols.policies.ProtocolWrapper
    (TimeoutFactory, TrafficLoggingFactory, ...) presents to the protocol it
    wraps"""
    from zope.interface import directlyProvides
    t = _PlainUnixTransport(*a, **kw)
    directlyProvides(t, interfaces.IUNIXTransport)
    return t


CONNECTION_DONE = tierror.ConnectionDone


def lost_reason(tag='done'):
    if tag == 'done':
        return failure.Failure(tierror.ConnectionDone('closed cleanly'))
    return failure.Failure(tierror.ConnectionLost(tag))


def reset_process_state():
    """Process-wide mutable state of the library that would otherwise leak
    from one execution into the next."""
    from txdbus import message, interface
    message.DBusMessage._nextSerial = 1


class KnownInterfaces:
    """Snapshot / restore of DBusInterface.knownInterfaces."""

    def __enter__(self):
        from txdbus import interface
        self.saved = dict(interface.DBusInterface.knownInterfaces)
        return self

    def __exit__(self, *a):
        from txdbus import interface
        interface.DBusInterface.knownInterfaces.clear()
        interface.DBusInterface.knownInterfaces.update(self.saved)
        return False


GUID = binascii.hexlify(b'0123456789abcdef')


def messages_of(data):
    """Parses a stream of complete messages with the reference parser."""
    return [R.parse_message(m) for m in R.split_stream(data)]


class ClientWorld:
    """A real DBusClientConnection on a fake transport with a virtual clock
    patched into txdbus.client.reactor."""

    def __init__(self, unix=False, authenticate=True, hello=True,
                 bus_name=':1.7'):
        from txdbus import client
        reset_process_state()
        self.clock = task.Clock()
        self._saved_reactor = client.reactor
        client.reactor = self.clock
        self.factory = client.DBusClientFactory()
        self.connect_results = []
        self.factory.getConnection().addBoth(self.connect_results.append)
        self.conn = self.factory.buildProtocol(None)
        self.transport = FakeUnixTransport() if unix else FakeTransport()
        self.conn.makeConnection(self.transport)
        self.bus_name = bus_name
        if authenticate:
            self.conn.dataReceived(b'OK ' + GUID + b'\r\n')
            if unix:
                self.conn.dataReceived(b'AGREE_UNIX_FD\r\n')
            self.handshake = self.transport.take()
            if hello:
                idx = self.handshake.index(b'BEGIN\r\n') + 7
                hello_msg = messages_of(self.handshake[idx:])[0]
                self.deliver(R.encode_message(
                    R.METHOD_RETURN, 1, {'reply_serial': hello_msg['serial'],
                                         'destination': bus_name,
                                         'sender': 'org.freedesktop.DBus'},
                    's', [bus_name]))

    def deliver(self, data):
        self.conn.dataReceived(data)

    def sent(self):
        """messages written by the client since the last call"""
        return messages_of(self.transport.take())

    def close(self):
        from txdbus import client
        client.reactor = self._saved_reactor


class BusWorld:
    """A real Bus with scripted raw clients; every client is a BusProtocol on
    a FakeTransport, spoken to with reference-encoded bytes."""

    def __init__(self):
        from txdbus import bus
        reset_process_state()
        self.bus = bus.Bus()
        self.factory = Factory()
        self.factory.protocol = bus.BusProtocol
        self.factory.bus = self.bus
        self.peers = []

    def connect(self, hello=True):
        p = self.factory.buildProtocol(None)
        t = FakeTransport()
        p.makeConnection(t)
        peer = Peer(self, p, t)
        self.peers.append(peer)
        p.dataReceived(b'\0AUTH ANONYMOUS\r\nBEGIN\r\n')
        t.take()
        if hello:
            peer.hello()
        else:
            # a peer that never says Hello: the bus names a connection on
            # its first message and serves calls to itself all the same; the
            # name shows as the destination of the first reply
            s = peer.call_bus('GetId')
            for m in peer.received():
                if m['fields'].get('reply_serial') == s:
                    peer.name = m['fields'].get('destination')
        return peer


    def churn(self, n):
        """n short-lived connections: each authenticates, says Hello and goes
        away again (what a bus sees from command-line tools all day long)"""
        hello = R.encode_message(
            R.METHOD_CALL, 1,
            {'path': '/org/freedesktop/DBus', 'member': 'Hello',
             'interface': 'org.freedesktop.DBus',
             'destination': 'org.freedesktop.DBus'})
        for _ in range(n):
            p = self.factory.buildProtocol(None)
            t = FakeTransport()
            p.makeConnection(t)
            p.dataReceived(b'\0AUTH ANONYMOUS\r\nBEGIN\r\n')
            p.dataReceived(hello)
            t.lost = True
            p.connectionLost(lost_reason())


class Peer:
    def __init__(self, world, proto, transport):
        self.world = world
        self.proto = proto
        self.transport = transport
        self.serial = 0
        self.name = None
        self.inbox = []
        self.alive = True

    def next_serial(self):
        self.serial += 1
        return self.serial

    def send_raw(self, data):
        self.proto.dataReceived(data)

    def call_bus(self, member, sig='', body=(), flags=0, sender=None):
        """sender: what this peer writes into the optional SENDER field (a
        bus ignores it and stamps the true name)"""
        s = self.next_serial()
        f = {'path': '/org/freedesktop/DBus', 'member': member,
             'interface': 'org.freedesktop.DBus',
             'destination': 'org.freedesktop.DBus'}
        if sender is not None:
            f['sender'] = sender
        self.send_raw(R.encode_message(R.METHOD_CALL, s, f, sig, body,
                                       flags=flags))
        return s

    def hello(self):
        s = self.call_bus('Hello')
        msgs = self.received()
        for m in msgs:
            if m['type'] == R.METHOD_RETURN and \
                    m['fields'].get('reply_serial') == s:
                self.name = m['body'][0]
        return self.name

    def received(self):
        """messages the bus wrote to this peer since the last call"""
        out = messages_of(self.transport.take())
        return out

    def disconnect(self):
        self.alive = False
        self.transport.lost = True
        self.proto.connectionLost(lost_reason())
