"""
C11 - a call through a remote-object proxy reaches the remote method with
equal arguments and completes with what it returned (or a RemoteError
mirroring what it raised), for any order in which the transports deliver
their bytes.

The composed system - one real Bus, n real BusProtocols, n real
DBusClientConnections joined by byte queues - is brought up under the default
schedule (real authentication, Hello, RequestName, export, proxy acquisition)
and then every delivery order of the queued chunks (and, as deviations, cuts
inside a chunk) is executed: stateless depth-first exploration, one real
execution per path.
"""
from mcx import core, dfs, fakes

PROP = 'C11'


class LinkTransport(fakes.FakeTransport):
    def __init__(self, creds=None):
        fakes.FakeTransport.__init__(self, creds)
        self.out = []

    def write(self, data):
        fakes.FakeTransport.write(self, data)
        if data:
            self.out.append(bytes(data))


def make_service(log, held, name, falsy=False):
    from twisted.internet import defer
    from txdbus import objects as O, interface as I
    iface = I.DBusInterface(
        'org.ex.Svc', I.Method('Echo', 's', 's'), I.Method('Add', 'ii', 'i'),
        I.Method('Swap', '(si)', '(is)'), I.Method('Fail', 's', ''),
        I.Method('Slow', 's', 's'), I.Method('Dict', 'a{sv}', 'a{sv}'),
        I.Method('Nothing', '', ''), I.Method('Who', '', 's'),
        I.Method('Ints', 'ai', 'ai'), I.Method('Tup1', 'i', '(i)'),
        noRegister=True)
    other = I.DBusInterface('org.ex.Other', I.Method('Echo', 's', 's'),
                            noRegister=True)

    # two levels: the base class implements Echo of both interfaces through
    # decorated methods; the exported class adds a decorated member to one
    # of those interfaces and the conventionally named ones
    class SvcBase(O.DBusObject):
        dbusInterfaces = [other, iface]

        @O.dbusMethod('org.ex.Svc', 'Echo')
        def echo_svc(self, s):
            log.append((name, 'Echo', s))
            return name + ':' + s

        @O.dbusMethod('org.ex.Other', 'Echo')
        def echo_other(self, s):
            log.append((name, 'Other.Echo', s))
            return 'other:' + s

    class Svc(SvcBase):

        @O.dbusMethod('org.ex.Svc', 'Add')
        def add_impl(self, a, b):
            log.append((name, 'Add', a, b))
            return a + b

        def dbus_Swap(self, st):
            log.append((name, 'Swap', st))
            return (st[1], st[0])

        def dbus_Fail(self, s):
            log.append((name, 'Fail', s))
            raise ValueError('no ' + s)

        def dbus_Slow(self, s):
            log.append((name, 'Slow', s))
            d = defer.Deferred()
            held.append((d, s))
            return d

        def dbus_Dict(self, d):
            log.append((name, 'Dict', d))
            return d

        def dbus_Ints(self, l):
            log.append((name, 'Ints', l))
            return list(l)

        def dbus_Tup1(self, i):
            log.append((name, 'Tup1', i))
            return (i,)

        def dbus_Nothing(self):
            log.append((name, 'Nothing'))

        def dbus_Who(self, dbusCaller=None):
            log.append((name, 'Who', dbusCaller))
            return '%s@%s' % (dbusCaller, name)

    if falsy:
        # a container-like application object that is empty at the moment:
        # its truth value is False, it is exported all the same
        class EmptySvc(Svc):
            def __len__(self):
                return 0
        return EmptySvc, iface, other
    return Svc, iface, other


CALLS = {
    'echo': ('Echo', ['a'], lambda n, c: ('ok', n + ':a'), ('Echo', 'a')),
    'echo2': ('Echo', ['b'], lambda n, c: ('ok', n + ':b'), ('Echo', 'b')),
    'add': ('Add', [1, 2], lambda n, c: ('ok', 3), ('Add', 1, 2)),
    # one struct is delivered as the list of return values (C08's documented
    # convention), i.e. a list holding the struct
    'swap': ('Swap', [('s', 5)], lambda n, c: ('ok', [[5, 's']]),
             ('Swap', ['s', 5])),
    'fail': ('Fail', ['z'],
             lambda n, c: ('err', 'org.txdbus.PythonException.ValueError',
                           'no z'), ('Fail', 'z')),
    'slow': ('Slow', ['x'], lambda n, c: ('ok', 'x!'), ('Slow', 'x')),
    'dict': ('Dict', [{'k': 'v', 'n': 7}], lambda n, c: ('ok', {'k': 'v',
                                                                'n': 7}),
             ('Dict', {'k': 'v', 'n': 7})),
    # single container return values holding exactly one / no element
    'ints1': ('Ints', [[5]], lambda n, c: ('ok', [5]), ('Ints', [5])),
    'ints0': ('Ints', [[]], lambda n, c: ('ok', []), ('Ints', [])),
    'tup1': ('Tup1', [9], lambda n, c: ('ok', [[9]]), ('Tup1', 9)),
    'nothing': ('Nothing', [], lambda n, c: ('ok', None), ('Nothing',)),
    'who': ('Who', [], lambda n, c: ('ok', '%s@%s' % (c, n)), ('Who', None)),
}

# scenarios: clients, exporters (client index -> bus name), and calls as
# (caller, exporter, call key); proxy = explicit | introspect
SCENARIOS = {
    '2c-2calls': dict(n=2, exporters={0: 'org.ex.A'},
                      calls=[(1, 0, 'echo'), (1, 0, 'add')]),
    '2c-slow': dict(n=2, exporters={0: 'org.ex.A'},
                    calls=[(1, 0, 'slow'), (1, 0, 'echo')]),
    '2c-fail': dict(n=2, exporters={0: 'org.ex.A'},
                    calls=[(1, 0, 'fail'), (1, 0, 'swap')]),
    '2c-3calls': dict(n=2, exporters={0: 'org.ex.A'},
                      calls=[(1, 0, 'echo'), (1, 0, 'fail'),
                             (1, 0, 'dict')]),
    '2c-who': dict(n=2, exporters={0: 'org.ex.A'},
                   calls=[(1, 0, 'who'), (1, 0, 'nothing')]),
    '2c-containers': dict(n=2, exporters={0: 'org.ex.A'},
                          calls=[(1, 0, 'ints1'), (1, 0, 'tup1'),
                                 (1, 0, 'ints0')]),
    '3c-2callers': dict(n=3, exporters={0: 'org.ex.A'},
                        calls=[(1, 0, 'echo'), (2, 0, 'echo2')]),
    '3c-2exporters': dict(n=3, exporters={0: 'org.ex.A', 2: 'org.ex.C'},
                          calls=[(1, 0, 'echo'), (1, 2, 'add')]),
    '3c-mixed': dict(n=3, exporters={0: 'org.ex.A'},
                     calls=[(1, 0, 'slow'), (2, 0, 'who'), (1, 0, 'add')]),
    '2c-after-be': dict(n=2, exporters={0: 'org.ex.A'}, be_peer=True,
                        calls=[(1, 0, 'echo'), (1, 0, 'add')]),
    '3c-after-be': dict(n=3, exporters={0: 'org.ex.A', 2: 'org.ex.C'},
                        be_peer=True,
                        calls=[(1, 0, 'echo'), (1, 2, 'add'), (2, 0, 'swap')]),
    # a long-lived process: the first call is outstanding (its method holds
    # a Deferred) while gap-1 further messages are built, then the second
    # call is made
    '2c-long-65534': dict(n=2, exporters={0: 'org.ex.A'}, gap=65534,
                          calls=[(1, 0, 'slow'), (1, 0, 'echo')]),
    '2c-long-65535': dict(n=2, exporters={0: 'org.ex.A'}, gap=65535,
                          calls=[(1, 0, 'slow'), (1, 0, 'echo')]),
    '2c-long-65536': dict(n=2, exporters={0: 'org.ex.A'}, gap=65536,
                          calls=[(1, 0, 'slow'), (1, 0, 'echo')]),
    '2c-long-65537': dict(n=2, exporters={0: 'org.ex.A'}, gap=65537,
                          calls=[(1, 0, 'slow'), (1, 0, 'echo')]),
    '2c-long-256': dict(n=2, exporters={0: 'org.ex.A'}, gap=256,
                        calls=[(1, 0, 'slow'), (1, 0, 'echo')]),
    '2c-long-255': dict(n=2, exporters={0: 'org.ex.A'}, gap=255,
                        calls=[(1, 0, 'slow'), (1, 0, 'echo')]),
    # the exported objects are container-like and currently empty (their
    # truth value is False)
    '2c-falsy': dict(n=2, exporters={0: 'org.ex.A'}, falsy=True,
                     calls=[(1, 0, 'echo'), (1, 0, 'add')]),
    '3c-falsy': dict(n=3, exporters={0: 'org.ex.A', 2: 'org.ex.C'},
                     falsy=True, calls=[(1, 0, 'echo'), (1, 2, 'swap')]),
    # comings and goings on the bus: a peer that connected first has left and
    # one / two newcomers have arrived when the calls are made
    '2c-comings1': dict(n=2, exporters={0: 'org.ex.A'}, comings=1,
                        calls=[(1, 0, 'echo'), (1, 0, 'who')]),
    '3c-comings2': dict(n=3, exporters={0: 'org.ex.A', 2: 'org.ex.C'},
                        comings=2,
                        calls=[(1, 0, 'echo'), (1, 2, 'add'), (2, 0, 'who')]),
    '2c-reexport': dict(n=2, exporters={0: 'org.ex.A'}, reexport=True,
                        calls=[(1, 0, 'echo'), (1, 0, 'add')]),
    '4c': dict(n=4, exporters={0: 'org.ex.A', 3: 'org.ex.D'},
               calls=[(1, 0, 'echo'), (2, 3, 'echo2'), (1, 3, 'add')]),
}


# interfaces declared by name: order of the list : names unknown locally
NAME_MODES = ['names:SO:S', 'names:OS:S', 'names:SO:O', 'names:OS:O',
              'names:SO:', 'names:OS:', 'names:S:S', 'names:S:',
              'names:SO:SO']


class System:
    def __init__(self, sc, proxy_mode):
        from twisted.internet import task
        from twisted.internet.protocol import Factory
        from txdbus import bus, client
        fakes.reset_process_state()
        self.ki = fakes.KnownInterfaces().__enter__()
        self.clock = task.Clock()
        self._saved_reactor = client.reactor
        client.reactor = self.clock
        self.bus = bus.Bus()
        bf = Factory()
        bf.protocol = bus.BusProtocol
        bf.bus = self.bus
        self.n = sc['n']
        self.early = None
        if sc.get('comings'):
            # another peer connected before everybody else (it will leave
            # again before the measured calls, and a newcomer will arrive)
            from mcx import refcodec as R
            ep = bf.buildProtocol(None)
            et = fakes.FakeTransport()
            ep.makeConnection(et)
            ep.dataReceived(b'\0AUTH ANONYMOUS\r\nBEGIN\r\n')
            ep.dataReceived(R.encode_message(
                1, 1, {'path': '/org/freedesktop/DBus', 'member': 'Hello',
                       'interface': 'org.freedesktop.DBus',
                       'destination': 'org.freedesktop.DBus'}))
            self.early = (ep, et)
        self.cprotos, self.sprotos, self.ct, self.st = [], [], [], []
        self.conn_results = []
        for i in range(self.n):
            f = client.DBusClientFactory()
            r = []
            f.getConnection().addBoth(r.append)
            self.conn_results.append(r)
            cp = f.buildProtocol(None)
            sp = bf.buildProtocol(None)
            ct, st = LinkTransport(), LinkTransport()
            self.cprotos.append(cp)
            self.sprotos.append(sp)
            self.ct.append(ct)
            self.st.append(st)
            sp.makeConnection(st)
            cp.makeConnection(ct)
        self.log = []
        self.held = []
        self.pump()
        self.objs = {}
        self.ifaces = {}
        for idx, name in sorted(sc['exporters'].items()):
            Svc, iface, other = make_service(self.log, self.held,
                                             'svc%d' % idx,
                                             falsy=sc.get('falsy', False))
            o = Svc('/svc')
            self.objs[idx] = o
            self.ifaces[idx] = (iface, other)
            self.cprotos[idx].exportObject(o)
            self.cprotos[idx].requestBusName(name)
            if sc.get('reexport'):
                # the application takes the object off the bus and puts the
                # same instance back (a service that is paused and resumed)
                self.pump()
                self.cprotos[idx].unexportObject('/svc')
                self.pump()
                self.cprotos[idx].exportObject(o)
        self.pump()
        if sc.get('be_peer'):
            # one more peer on the bus, written with another library on a
            # big-endian machine: it calls every exporter once before the
            # measured calls (the bus hands messages on in the byte order
            # they arrived in, so the exporters get to read a big-endian
            # message followed by little-endian ones)
            from mcx import refcodec as R
            rp = bf.buildProtocol(None)
            rt = fakes.FakeTransport()
            rp.makeConnection(rt)
            rp.dataReceived(b'\0AUTH ANONYMOUS\r\nBEGIN\r\n')
            rp.dataReceived(R.encode_message(
                1, 1, {'path': '/org/freedesktop/DBus', 'member': 'Hello',
                       'interface': 'org.freedesktop.DBus',
                       'destination': 'org.freedesktop.DBus'}, little=False))
            for k, (idx, name) in enumerate(sorted(sc['exporters'].items())):
                rp.dataReceived(R.encode_message(
                    1, 2 + k, {'path': '/svc', 'member': 'Echo',
                               'interface': 'org.ex.Svc',
                               'destination': name}, 's', ['from-be'],
                    little=False))
            self.pump()
            self.raw_peer = (rp, rt)
        self.proxies = {}
        self._bf = bf
        for (caller, exporter, key) in sc['calls']:
            if (caller, exporter) in self.proxies:
                continue
            got = []
            ifc = self.ifaces[exporter][0] if proxy_mode == 'explicit' \
                else None
            if proxy_mode == 'reintrospect':
                # the calling side already knows an outdated definition of
                # the interface; it asks for replacement, then builds the
                # proxy it will use from the (now replaced) known name
                from txdbus import interface as I
                I.DBusInterface('org.ex.Svc', I.Method('Echo', 's', 's'))
                first = []
                self.cprotos[caller].getRemoteObject(
                    sc['exporters'][exporter], '/svc',
                    replaceKnownInterfaces=True).addBoth(first.append)
                self.pump()
                self.cprotos[caller].getRemoteObject(
                    sc['exporters'][exporter], '/svc',
                    'org.ex.Svc').addBoth(got.append)
                self.pump()
                self.proxies[(caller, exporter)] = got
                continue
            if proxy_mode.startswith('names:'):
                # interfaces declared by name, as a list in the given order;
                # the names in `unknown` are not known locally when the
                # proxy is asked for (so introspection has to supply them)
                from txdbus import interface as I
                _, order, unknown = proxy_mode.split(':')
                full = {'S': 'org.ex.Svc', 'O': 'org.ex.Other'}
                for k, nm in full.items():
                    if k in unknown:
                        I.DBusInterface.knownInterfaces.pop(nm, None)
                    else:
                        I.DBusInterface.knownInterfaces[nm] = \
                            self.ifaces[exporter][0 if k == 'S' else 1]
                ifc = [full[k] for k in order]
                if len(ifc) == 1 and 'L' not in proxy_mode:
                    ifc = ifc[0]
            self.cprotos[caller].getRemoteObject(
                sc['exporters'][exporter], '/svc', ifc).addBoth(got.append)
            self.pump()
            self.proxies[(caller, exporter)] = got
        if self.early is not None:
            # the early peer leaves, a newcomer connects and says Hello
            from mcx import refcodec as R
            ep, et = self.early
            et.lost = True
            ep.connectionLost(fakes.lost_reason())
            for k in range(sc['comings']):
                np_ = self._bf.buildProtocol(None)
                nt = fakes.FakeTransport()
                np_.makeConnection(nt)
                np_.dataReceived(b'\0AUTH ANONYMOUS\r\nBEGIN\r\n')
                np_.dataReceived(R.encode_message(
                    1, 1, {'path': '/org/freedesktop/DBus',
                           'member': 'Hello',
                           'interface': 'org.freedesktop.DBus',
                           'destination': 'org.freedesktop.DBus'}))
                self.newcomers = getattr(self, 'newcomers', []) + [(np_, nt)]
            self.pump()
        self.results = []

    def queues(self):
        q = []
        for i in range(self.n):
            q.append(('c2b', i, self.ct[i].out))
            q.append(('b2c', i, self.st[i].out))
        return q

    def deliver(self, kind, i, cut=None):
        src = self.ct[i].out if kind == 'c2b' else self.st[i].out
        data = src.pop(0)
        if isinstance(cut, tuple):
            # one read holding the whole head chunk and the first bytes of
            # the chunk behind it
            pos = cut[1]
            data += src[0][:pos]
            src[0] = src[0][pos:]
        elif cut is not None and 0 < cut < len(data):
            src.insert(0, data[cut:])
            data = data[:cut]
        if kind == 'c2b':
            self.sprotos[i].dataReceived(data)
        else:
            self.cprotos[i].dataReceived(data)

    def pump(self, limit=2000):
        n = 0
        while n < limit:
            for kind, i, q in self.queues():
                if q:
                    self.deliver(kind, i)
                    n += 1
                    break
            else:
                return n
        raise core.HarnessError('set-up did not quiesce')

    def close(self):
        from txdbus import client
        client.reactor = self._saved_reactor
        self.ki.__exit__()


CUTS = (1, 16, 'mid')


def make_runner(params):
    sc = SCENARIOS[params['scenario']]
    mode = params['proxy']
    use_cuts = params.get('cuts', True)

    def run(prefix):
        viol = []
        taken, points = [], []
        try:
            s = System(sc, mode)
        except core.HarnessError:
            raise
        except Exception as e:
            import traceback
            tb = traceback.extract_tb(e.__traceback__)
            where = '%s:%s' % (tb[-1].filename.split('/')[-1], tb[-1].name)
            return [], [], [('%s/setup/%s/%s' % (PROP, type(e).__name__,
                                                 where),
                             'bringing the bus and %d clients up (%s proxies)'
                             ' raised %r at %s' % (sc['n'], mode, e, where))],\
                {'params': params}
        try:
            # the set-up itself is part of the claim: everybody connected,
            # every proxy obtained
            for i, r in enumerate(s.conn_results):
                if len(r) != 1 or getattr(r[0], 'busName', None) is None:
                    viol.append(('%s/setup/connect' % PROP,
                                 'client %d did not connect: %r' % (i, r)))
            for k, got in s.proxies.items():
                if len(got) != 1 or type(got[0]).__name__ != \
                        'RemoteDBusObject':
                    viol.append(('%s/setup/proxy-%s' % (PROP, mode),
                                 'getRemoteObject %r (%s) gave %r'
                                 % (k, mode, got)))
            if viol:
                return [], [], viol, {'params': params}
            s.log[:] = []
            results = []
            for ci, (caller, exporter, key) in enumerate(sc['calls']):
                method, args, expf, logent = CALLS[key]
                sink = []
                results.append(sink)
                prox = s.proxies[(caller, exporter)][0]
                try:
                    d = prox.callRemote(method, *args)
                except Exception as e:
                    viol.append(('%s/call-raises/%s/%s'
                                 % (PROP, type(e).__name__, mode),
                                 'proxy.callRemote(%r, %r) (%s proxy) raised '
                                 '%r' % (method, args, mode, e)))
                    return [], [], viol, {'params': params}
                if ci == 0 and sc.get('gap'):
                    from mcx import scale
                    scale.build_messages(sc['gap'] - 1)
                d.addCallbacks(
                    lambda v, sink=sink: sink.append(('ok', v)),
                    lambda f, sink=sink: sink.append(
                        ('err', getattr(f.value, 'errName',
                                        type(f.value).__name__),
                         getattr(f.value, 'message', None))))
            step = 0
            while step < 400:
                opts = []      # (cost, action)
                for kind, i, q in s.queues():
                    if not q:
                        continue
                    opts.append((0, ('d', kind, i, None)))
                    if use_cuts:
                        ln = len(q[0])
                        for c in CUTS:
                            pos = ln // 2 if c == 'mid' else c
                            if 0 < pos < ln and ln > 2:
                                opts.append((1, ('d', kind, i, pos)))
                        if len(q) > 1:
                            l2 = len(q[1])
                            for c in CUTS:
                                pos = l2 // 2 if c == 'mid' else c
                                if 0 < pos < l2:
                                    opts.append((1, ('d', kind, i,
                                                     ('join', pos))))
                for hi, (d, arg) in enumerate(s.held):
                    if not d.called:
                        opts.append((0, ('fire', hi)))
                if not opts:
                    break
                if step < len(prefix):
                    c = prefix[step]
                    if c >= len(opts):
                        raise core.HarnessError(
                            'replay diverged at step %d: choice %d of %d'
                            % (step, c, len(opts)))
                else:
                    c = 0
                taken.append(c)
                points.append([o[0] for o in opts])
                act = opts[c][1]
                try:
                    if act[0] == 'd':
                        s.deliver(act[1], act[2], act[3])
                    else:
                        d, arg = s.held[act[1]]
                        d.callback(arg + '!')
                except core.HarnessError:
                    raise
                except Exception as e:
                    import traceback
                    tb = traceback.extract_tb(e.__traceback__)
                    where = '%s:%s' % (tb[-1].filename.split('/')[-1],
                                       tb[-1].name)
                    viol.append(('%s/delivery-raises/%s/%s'
                                 % (PROP, type(e).__name__, where),
                                 'step %r raised %r at %s' % (act, e, where)))
                    return taken, points, viol, {'params': params}
                step += 1
            if step >= 400:
                viol.append(('%s/no-quiescence' % PROP,
                             'the system did not become quiescent within 400 '
                             'steps'))
            # the oracle
            names = {idx: 'svc%d' % idx for idx in sc['exporters']}
            uniq = [p.busName for p in s.cprotos]
            want_log = []
            for ci, (caller, exporter, key) in enumerate(sc['calls']):
                method, args, expf, logent = CALLS[key]
                exp = expf(names[exporter], uniq[caller])
                introspected = mode == 'introspect'
                if mode.startswith('names:'):
                    _, order, unknown = mode.split(':')
                    # any unknown name: the proxy is built from the
                    # introspection result; otherwise from the listed
                    # interfaces in the listed order
                    introspected = bool(set(unknown) & set(order)) or \
                        order[0] == 'O'
                if key.startswith('echo') and introspected:  # noqa
                    # 'Echo' is declared by two interfaces; without an
                    # interface argument a proxy uses the first of its
                    # interfaces declaring it - for an introspected proxy
                    # that is the exporter's first one, org.ex.Other
                    exp = ('ok', 'other:' + args[0])
                    logent = ('Other.Echo', args[0])
                got = results[ci]
                tag = '%s/%s' % (key, mode)
                if len(got) != 1:
                    viol.append(('%s/completions/%s/%d' % (PROP, tag,
                                                          len(got)),
                                 'call %d (%s from client %d to %d) '
                                 'completed %d times: %r'
                                 % (ci, method, caller, exporter, len(got),
                                    got)))
                else:
                    g = got[0]
                    if exp[0] == 'ok':
                        ok = g[0] == 'ok' and g[1] == exp[1]
                    else:
                        ok = g[0] == 'err' and g[1] == exp[1] and \
                            exp[2] in (g[2] or '')
                    if not ok:
                        viol.append(('%s/result/%s' % (PROP, tag),
                                     'call %d (%s%r, client %d -> %d) '
                                     'completed with %r, the method '
                                     'returned/raised %r'
                                     % (ci, method, tuple(args), caller,
                                        exporter, g, exp)))
                ent = (names[exporter],) + logent
                if key == 'who':
                    ent = (names[exporter], 'Who', uniq[caller])
                want_log.append(ent)
            if sorted(map(repr, s.log)) != sorted(map(repr, want_log)):
                viol.append(('%s/invocations/%s' % (PROP, mode),
                             'exported methods ran %r, expected each call '
                             'exactly once with equal arguments: %r'
                             % (s.log, want_log)))
            info = {'params': params,
                    'nontrivial': len(set(taken)) > 1,
                    'outcome': tuple(repr(e) for e in s.log),
                    'sample': {'scenario': params['scenario'],
                               'proxy': mode, 'choices': list(taken)}}
            return taken, points, viol, info
        finally:
            s.close()
    return run


def run(ctx):
    ctx.rule = (
        'composed system: one real Bus, n real server protocols, n real '
        'client connections joined by byte queues (one chunk per transport '
        'write). Set-up under the default schedule: real EXTERNAL '
        'authentication, Hello, export, RequestName, proxy acquisition with '
        'an explicit interface or by introspection. Measured phase: the '
        'scenario\'s concurrent proxy calls are issued, then every order of '
        'delivering the head chunk of any of the 2n queues and of firing a '
        'Deferred held by an exported method is executed (stateless DFS, one '
        'real execution per path), plus up to %d cut(s) inside a chunk at '
        'byte 1, byte 16 or the middle, or a read that joins a chunk with '
        'the first 1 / 16 / half of the bytes of the chunk behind it. At quiescence each proxy Deferred '
        'must have fired once with what the method returned / a RemoteError '
        'mirroring what it raised, and the exporter must have run each call '
        'exactly once with equal arguments'
        % (1 if ctx.quick else 2))
    ctx.assumptions = [
        'each transport write is delivered as one read unless cut or joined '
        'with a prefix of the next write (one deviation each)',
        'all parties share one process, hence one message-serial counter '
        '(the 2c-long-<gap> scenarios build gap-1 messages between the '
        'first, held, call and the second)']
    if ctx.quick:
        plan = [('2c-2calls', 'explicit', 1), ('2c-2calls', 'introspect', 1),
                ('2c-slow', 'explicit', 1), ('2c-fail', 'introspect', 1),
                ('2c-who', 'explicit', 1), ('2c-3calls', 'explicit', 0),
                ('2c-containers', 'introspect', 0),
                ('2c-2calls', 'reintrospect', 0),
                ('3c-2callers', 'explicit', 1),
                ('3c-2exporters', 'introspect', 1)]
        plan += [('2c-2calls', m, 0) for m in NAME_MODES]
        plan += [('2c-after-be', 'explicit', 1), ('3c-after-be', 'introspect', 0)]
        plan += [('2c-long-%d' % g, 'explicit', 0)
                 for g in (255, 256, 65535, 65536)]
        plan += [('2c-falsy', 'explicit', 0), ('2c-falsy', 'introspect', 0),
                 ('3c-falsy', 'introspect', 0)]
        plan += [('2c-reexport', 'explicit', 0),
                 ('2c-reexport', 'introspect', 0)]
        plan += [('2c-comings1', 'explicit', 0),
                 ('3c-comings2', 'explicit', 0)]
        limit = 5000
    else:
        plan = [('2c-2calls', 'explicit', 2), ('2c-2calls', 'introspect', 1),
                ('2c-slow', 'explicit', 1), ('2c-fail', 'introspect', 1),
                ('2c-who', 'explicit', 1), ('2c-3calls', 'explicit', 0),
                ('2c-containers', 'introspect', 1),
                ('2c-containers', 'explicit', 0),
                ('2c-2calls', 'reintrospect', 1),
                ('2c-fail', 'reintrospect', 0),
                ('3c-2callers', 'explicit', 1),
                ('3c-2exporters', 'introspect', 1),
                ('3c-mixed', 'explicit', 0), ('4c', 'explicit', 0)]
        plan += [('2c-2calls', m, 0) for m in NAME_MODES]
        plan += [('2c-fail', m, 1) for m in NAME_MODES[:4]]
        plan += [('2c-after-be', 'explicit', 1), ('2c-after-be', 'introspect', 1),
                 ('3c-after-be', 'introspect', 1)]
        plan += [('2c-long-%d' % g, 'explicit', 0)
                 for g in (255, 256, 65534, 65535, 65536, 65537)]
        plan += [('2c-falsy', 'explicit', 1), ('2c-falsy', 'introspect', 1),
                 ('3c-falsy', 'introspect', 0), ('3c-falsy', 'explicit', 0)]
        plan += [('2c-reexport', 'explicit', 1),
                 ('2c-reexport', 'introspect', 1)]
        plan += [('2c-comings1', 'explicit', 1),
                 ('3c-comings2', 'introspect', 0)]
        limit = 60000
    for scn, mode, dev in plan:
        dfs.explore(ctx, make_runner,
                    {'scenario': scn, 'proxy': mode, 'cuts': dev > 0},
                    max_dev=dev, label='%s/%s/cuts<=%d' % (scn, mode, dev),
                    limit_per_task=limit)
    ctx.bounds = {'plan': [list(p) for p in plan]}


def replay(data):
    runner = make_runner(data['params'])
    taken, points, viol, info = runner(list(data['choices']))
    return viol
