"""
C08 - each remote call completes exactly once, with the reply that belongs to
it (value / RemoteError / TimeOut / connection loss, whichever comes first);
nothing is cross-delivered; no timer survives completion.

Explicit-state search over interleavings of issue / reply / error / expiry /
unsolicited reply / connection loss for N concurrent calls on a real
DBusClientConnection with a virtual clock.
"""
import itertools

from mcx import core, explore, fakes, refcodec as R

PROP = 'C08'

REPLY_KINDS = {
    'none': ('', lambda i: []),
    's': ('s', lambda i: ['tag-%d' % i]),
    'struct': ('(si)', lambda i: [['tag-%d' % i, i]]),
    'two': ('si', lambda i: ['tag-%d' % i, i]),
    # one value that is not a struct but contains structs
    'arrstruct': ('a(si)', lambda i: [[['tag-%d' % i, i], ['more', 2]]]),
    'dictstruct': ('a{s(ii)}', lambda i: [[['tag-%d' % i, [i, 3]]]]),
    'variant': ('v', lambda i: [R.Var('(si)', ['tag-%d' % i, i])]),
}
ERROR_KINDS = {
    'msg': ('s', lambda i: ['msg-%d' % i]),
    'bare': ('', lambda i: []),
    'nonstr': ('us', lambda i: [7, 'later-%d' % i]),
}

# a call configuration: (deadline or None, return-signature mode, reply kind,
# error kind, expectReply)
CONFIGS = {
    # name: list of per-call configs
    'plain2': [(None, 'unchecked', 's', 'msg', True),
               (None, 'unchecked', 'two', 'bare', True)],
    'deadlines2': [(5, 'unchecked', 's', 'msg', True),
                   (10, 'unchecked', 'none', 'nonstr', True)],
    'deadlines2rev': [(10, 'match', 'struct', 'msg', True),
                      (5, 'match', 's', 'bare', True)],
    'mixed2': [(5, 'mismatch', 's', 'msg', True),
               (None, 'empty', 'none', 'bare', True)],
    'retsig2': [(None, 'empty', 's', 'msg', True),
                (7, 'mismatch', 'two', 'nonstr', True)],
    'noreply2': [(None, 'unchecked', 's', 'msg', False),
                 (5, 'match', 'two', 'msg', True)],
    # the same operation twice: two calls that expect no reply; and one
    # between ordinary calls
    'noreply-twice2': [(None, 'unchecked', 's', 'msg', False),
                       (None, 'match', 'none', 'bare', False)],
    'noreply-around3': [(None, 'unchecked', 's', 'msg', False),
                        (5, 'match', 's', 'msg', True),
                        (None, 'unchecked', 'two', 'bare', False)],
    # a non-empty declared return signature answered without any value, and
    # a declared-empty one answered with a value
    'declared-vs-empty2': [(None, 'mismatch', 'none', 'msg', True),
                           (5, 'empty', 'two', 'bare', True)],
    'same-deadline2': [(5, 'unchecked', 's', 'msg', True),
                       (5, 'match', 'none', 'bare', True)],
    'three': [(5, 'unchecked', 's', 'msg', True),
              (None, 'match', 'struct', 'bare', True),
              (10, 'unchecked', 'two', 'nonstr', True)],
    'three-rev': [(10, 'match', 's', 'nonstr', True),
                  (5, 'mismatch', 'none', 'msg', True),
                  (None, 'unchecked', 'struct', 'bare', False)],
    'four': [(5, 'unchecked', 's', 'msg', True),
             (10, 'match', 'two', 'bare', True),
             (None, 'unchecked', 'none', 'nonstr', True),
             (7, 'empty', 'none', 'msg', True)],
}


# systematic pairs: every (return-signature mode x reply shape x error shape)
# for the first call next to a fixed second one
for _m in ('unchecked', 'match', 'mismatch', 'empty'):
    for _r in REPLY_KINDS:
        for _e in ERROR_KINDS:
            CONFIGS['sys/%s/%s/%s' % (_m, _r, _e)] = [
                (7 if _e == 'bare' else None, _m, _r, _e, True),
                (5, 'unchecked', 's', 'msg', True)]


def expected_value(cfg, i):
    """('ok', value) or ('err', 'RemoteError') for a reply to call i"""
    deadline, mode, rk, ek, expect = cfg
    sig, mk = REPLY_KINDS[rk]
    body = mk(i)
    if mode == 'mismatch' or (mode == 'empty' and sig):
        return ('err', 'RemoteError', None)
    if not body:
        return ('ok', None)
    body = R.as_plain(R.parse_sig(sig), body)
    if len(body) == 1 and sig[0] != '(':
        return ('ok', body[0])
    return ('ok', body)


UNCHECKED = object()     # "do not pass returnSignature at all"


def return_signature(cfg):
    deadline, mode, rk, ek, expect = cfg
    if mode == 'unchecked':
        return UNCHECKED
    if mode == 'match':
        return REPLY_KINDS[rk][0]
    if mode == 'mismatch':
        return 'u' if REPLY_KINDS[rk][0] != 'u' else 's'
    return ''


class W:
    pass


class CallScenario(explore.Scenario):
    name = 'C08/calls'

    def build(self):
        w = W()
        w.cfgs = CONFIGS[self.params['config']]
        w.n = len(w.cfgs)
        w.cw = fakes.ClientWorld()
        w.cw.sent()
        w.results = [[] for _ in range(w.n)]      # observed completions
        w.serial = [None] * w.n
        w.status = ['unissued'] * w.n             # model
        w.expect = [None] * w.n
        w.deadline_at = [None] * w.n
        w.used = set()
        w.lost = False
        w.bus_serial = 1000
        w.late = None
        if self.params.get('loss_call'):
            # the application has a disconnect callback that makes one more
            # call (with a deadline) when it runs: that call is outstanding
            # when the loss is processed, like the others
            w.late = []

            def on_loss(c, reason, late=w.late):
                d = c.callRemote('/o', 'Bye', interface='a.b',
                                 destination='c.d', timeout=3)
                d.addCallbacks(
                    lambda v: late.append(('ok', v)),
                    lambda f: late.append(('err', type(f.value).__name__)))
            w.cw.conn.notifyOnDisconnect(on_loss)
        return w

    def close(self, w):
        w.cw.close()

    def enabled(self, w):
        evs = []
        if w.lost:
            if w.cw.clock.getDelayedCalls():
                evs.append(('expire',))
            return evs
        for i in range(w.n):
            if w.status[i] == 'unissued':
                # calls are issued in index order (their relative order is
                # not what the property is about; everything else is free)
                if i == 0 or w.status[i - 1] != 'unissued':
                    evs.append(('issue', i))
                continue
            if ('reply', i) not in w.used:
                evs.append(('reply', i))
            if ('error', i) not in w.used:
                evs.append(('error', i))
        if any(w.status[i] == 'pending' and w.deadline_at[i] is not None
               for i in range(w.n)):
            evs.append(('expire',))
        if ('unsol',) not in w.used:
            evs.append(('unsol',))
        evs.append(('lose',))
        return evs

    def _watch(self, w, i, d):
        # the application's callbacks hand a value of their own down the
        # chain, as callbacks that chain further work do
        def ok(v):
            w.results[i].append(('ok', v))
            return ('handled-by-application', i)

        def err(f):
            e = f.value
            name = type(e).__name__
            if name == 'RemoteError':
                w.results[i].append(('err', name,
                                     (e.errName, getattr(e, 'message', None),
                                      list(getattr(e, 'values', []) or []))))
            else:
                w.results[i].append(('err', name, None))
            return ('failure-handled-by-application', i)
        d.addCallbacks(ok, err)

    def apply(self, w, ev):
        conn = w.cw.conn
        kind = ev[0]
        w.used.add(ev)
        try:
            if kind == 'issue':
                i = ev[1]
                deadline, mode, rk, ek, expect = w.cfgs[i]
                kw = {}
                rs = return_signature(w.cfgs[i])
                if rs is not UNCHECKED:
                    kw['returnSignature'] = rs
                d = conn.callRemote('/obj', 'Method%d' % i,
                                    interface='org.ex.I',
                                    destination='org.ex.Dest',
                                    signature='s', body=['arg-%d' % i],
                                    expectReply=expect, timeout=deadline,
                                    **kw)
                self._watch(w, i, d)
                msgs = w.cw.sent()
                if len(msgs) != 1 or msgs[0]['fields'].get('member') != \
                        'Method%d' % i:
                    return [('%s/issue/wire' % PROP,
                             'issuing call %d wrote %r' % (i, msgs))]
                w.serial[i] = msgs[0]['serial']
                if bool(msgs[0]['flags'] & 1) != (not expect):
                    return [('%s/issue/flags' % PROP,
                             'call %d expectReply=%s went out with flags %d'
                             % (i, expect, msgs[0]['flags']))]
                if expect:
                    w.status[i] = 'pending'
                    if deadline:
                        w.deadline_at[i] = w.cw.clock.seconds() + deadline
                else:
                    w.status[i] = 'done'
                    w.expect[i] = ('ok', None)
            elif kind == 'reply':
                i = ev[1]
                sig, mk = REPLY_KINDS[w.cfgs[i][2]]
                w.bus_serial += 1
                raw = R.encode_message(
                    R.METHOD_RETURN, w.bus_serial,
                    {'reply_serial': w.serial[i], 'destination': ':1.7',
                     'sender': ':1.99'}, sig, mk(i),
                    # the answering peer's byte order is its own business:
                    # every second call is answered big-endian
                    little=(i % 2 == 0))
                if w.status[i] == 'pending':
                    w.status[i] = 'done'
                    w.expect[i] = expected_value(w.cfgs[i], i)
                    w.deadline_at[i] = None
                conn.dataReceived(raw)
            elif kind == 'error':
                i = ev[1]
                sig, mk = ERROR_KINDS[w.cfgs[i][3]]
                w.bus_serial += 1
                body = mk(i)
                raw = R.encode_message(
                    R.ERROR, w.bus_serial,
                    {'reply_serial': w.serial[i], 'destination': ':1.7',
                     'error_name': 'org.ex.Err%d' % i}, sig, body,
                    little=(i % 2 == 1))
                if w.status[i] == 'pending':
                    w.status[i] = 'done'
                    msg = body[0] if body and isinstance(body[0], str) else ''
                    w.expect[i] = ('err', 'RemoteError',
                                   ('org.ex.Err%d' % i, msg, body))
                    w.deadline_at[i] = None
                conn.dataReceived(raw)
            elif kind == 'unsol':
                w.bus_serial += 1
                conn.dataReceived(R.encode_message(
                    R.METHOD_RETURN, w.bus_serial,
                    {'reply_serial': 987654, 'destination': ':1.7'}, 's',
                    ['stray'], little=False))
                w.bus_serial += 1
                conn.dataReceived(R.encode_message(
                    R.ERROR, w.bus_serial,
                    {'reply_serial': 987655, 'error_name': 'org.ex.Stray'}))
                for i in range(w.n):
                    if not w.cfgs[i][4] and w.serial[i] is not None:
                        w.bus_serial += 1
                        conn.dataReceived(R.encode_message(
                            R.METHOD_RETURN, w.bus_serial,
                            {'reply_serial': w.serial[i]}, 's', ['late']))
            elif kind == 'expire':
                if w.lost:
                    w.cw.clock.advance(1000)
                else:
                    t = min(w.deadline_at[i] for i in range(w.n)
                            if w.status[i] == 'pending'
                            and w.deadline_at[i] is not None)
                    for i in range(w.n):
                        if w.status[i] == 'pending' and \
                                w.deadline_at[i] is not None and \
                                w.deadline_at[i] <= t:
                            w.status[i] = 'done'
                            w.expect[i] = ('err', 'TimeOut', None)
                            w.deadline_at[i] = None
                    w.cw.clock.advance(t - w.cw.clock.seconds())
            elif kind == 'lose':
                for i in range(w.n):
                    if w.status[i] == 'pending':
                        w.status[i] = 'done'
                        w.expect[i] = ('err', 'ConnectionDone', None)
                        w.deadline_at[i] = None
                w.lost = True
                conn.connectionLost(fakes.lost_reason())
        except Exception as e:
            return [('%s/%s/raises-%s' % (PROP, kind, type(e).__name__),
                     'event %r raised %r (config %s)'
                     % (ev, e, self.params['config']))]
        return self._compare(w, ev)

    def _compare(self, w, ev):
        viol = []
        for i in range(w.n):
            got = w.results[i]
            if w.status[i] == 'done':
                exp = w.expect[i]
                if len(got) != 1:
                    viol.append((
                        '%s/completions/%s/%d-times' % (PROP, ev[0], len(got)),
                        'after %r call %d (%r) completed %d times: %r, '
                        'expected exactly once with %r'
                        % (ev, i, w.cfgs[i], len(got), got, exp)))
                    continue
                g = got[0]
                ok = g[0] == exp[0] and (
                    (g[0] == 'ok' and g[1] == exp[1]) or
                    (g[0] == 'err' and g[1] == exp[1] and
                     (exp[2] is None or g[2] == exp[2])))
                if not ok:
                    viol.append((
                        '%s/outcome/%s/expected-%s/got-%s'
                        % (PROP, ev[0], exp[1] if exp[0] == 'err' else 'value',
                           g[1] if g[0] == 'err' else 'value'),
                        'after %r call %d (%r) completed with %r, expected %r'
                        % (ev, i, w.cfgs[i], g, exp)))
            elif got:
                viol.append((
                    '%s/premature/%s' % (PROP, ev[0]),
                    'after %r call %d is still outstanding but its Deferred '
                    'fired with %r' % (ev, i, got)))
        if w.lost and w.late is not None and \
                w.late != [('err', 'ConnectionDone')] and ev[0] == 'lose':
            viol.append(('%s/loss-callback-call' % PROP,
                         'a call issued by a disconnect callback while the '
                         'loss was being processed ended as %r, expected one '
                         'failure with the loss reason' % (w.late,)))
        armed = len([c for c in w.cw.clock.getDelayedCalls() if c.active()])
        want = len([i for i in range(w.n) if w.status[i] == 'pending'
                    and w.deadline_at[i] is not None])
        if armed != want:
            viol.append((
                '%s/timers/%s/armed-%d-expected-%d' % (PROP, ev[0], armed,
                                                       want),
                'after %r %d timer(s) are armed, %d call(s) with a deadline '
                'are outstanding' % (ev, armed, want)))
        return viol

    def final(self, w):
        """run the clock out and deliver stray replies: nothing may change"""
        snap = [list(r) for r in w.results]
        try:
            w.cw.clock.advance(10000)
            if not w.lost:
                for i in range(w.n):
                    if w.status[i] == 'done' and w.serial[i] is not None:
                        w.bus_serial += 1
                        w.cw.conn.dataReceived(R.encode_message(
                            R.METHOD_RETURN, w.bus_serial,
                            {'reply_serial': w.serial[i]}, 's', ['again']))
        except Exception as e:
            return [('%s/afterwards/raises-%s' % (PROP, type(e).__name__),
                     'running the clock out / late replies raised %r' % (e,))]
        out = []
        for i in range(w.n):
            if w.status[i] == 'done' and w.results[i] != snap[i]:
                out.append(('%s/afterwards/fired-again' % PROP,
                            'call %d fired again after completion: %r'
                            % (i, w.results[i])))
        return out

    def canon(self, w):
        c = w.cw.conn
        return (tuple(w.status), tuple(sorted(w.used)), w.lost,
                tuple(repr(e) for e in w.expect),
                explore.impl_digest(
                    {k: v for k, v in getattr(c, '_pendingCalls', {}).items()}
                ))

    def nontrivial(self, hist):
        return len({e[1] for e in hist if len(e) > 1}) > 1


def run(ctx):
    ctx.rule = (
        'breadth-first search with deduplication over interleavings of '
        'issue(i), reply(i), error(i), expire (clock to the next deadline), '
        'unsolicited replies and connection loss, each reply/error at most '
        'once per call (a second one for a completed call is the duplicate), '
        'for call configurations varying deadline order, declared return '
        'signature (unchecked / matching / mismatching / declared empty), '
        'reply shape (none / one value / one struct / two values), error '
        'shape and no-reply calls; replies are real bytes delivered through '
        'dataReceived, serials are read from what the client wrote. After '
        'every event each call\'s Deferred must have fired exactly as the '
        'reference call table says and the armed timers must be exactly the '
        'outstanding deadlines; in every state the clock is then run out and '
        'late replies delivered: nothing may fire again. Calls made with '
        'message objects of application subclasses of MethodCallMessage '
        'next to plain calls, other message types built in between, answers '
        'in both orders. Long-lived '
        'process: a call outstanding while 254..257 and 65534..65537 further '
        'messages are built (unsent signals, or answered calls on the same '
        'connection), then a second call, answers in either order')
    ctx.assumptions = ['calls are issued in index order; deadlines are '
                       'permuted through the configurations instead']
    names = ['plain2', 'deadlines2', 'deadlines2rev', 'mixed2', 'retsig2',
             'noreply2', 'same-deadline2', 'declared-vs-empty2',
             'noreply-twice2', 'noreply-around3']
    sysnames = sorted(k for k in CONFIGS if k.startswith('sys/'))
    if ctx.quick:
        # a third of the systematic pairs (every mode x reply shape occurs)
        names = names + [k for k in sysnames if k.endswith('/msg')]
    else:
        names = names + sysnames
    if ctx.quick:
        for n in names:
            explore.explore(ctx, CallScenario, {'config': n}, max_depth=12,
                            label=n)
        explore.explore(ctx, CallScenario, {'config': 'three'}, max_depth=6,
                        label='three (depth 6)')
    else:
        for n in names + ['three', 'three-rev']:
            explore.explore(ctx, CallScenario, {'config': n}, max_depth=16,
                            label=n)
        explore.explore(ctx, CallScenario, {'config': 'four'}, max_depth=9,
                        label='four (depth 9)', max_states=400000)
    for n in ('plain2', 'deadlines2'):
        explore.explore(ctx, CallScenario, {'config': n, 'loss_call': True},
                        max_depth=12, label=n + ' + a call from a '
                        'disconnect callback')
    ctx.map(_task_resend, [0])
    from mcx import scale
    gaps = scale.LADDER_SMALL[3:] + scale.LADDER_WORD
    ctx.map(_task_long_lived,
            [(g, 'signals') for g in gaps]
            + [(g, 'calls') for g in (gaps if not ctx.quick else
                                      scale.LADDER_SMALL[3:] + [65535])])
    ctx.bounds = {'configs': list(ctx.parts)}


def run_resend(first, second, timeout, chain):
    """a call message object sent again (callRemoteMessage) from inside the
    callback / errback that receives the answer to its previous use: the
    second use is a call of its own and completes with its own answer"""
    from txdbus import message as M
    viol = []
    cw = fakes.ClientWorld()
    try:
        cw.sent()
        conn = cw.conn
        mcall = M.MethodCallMessage('/o', 'Poll', interface='a.b',
                                    destination='c.d')
        results = [[] for _ in range(chain + 1)]

        def use(k):
            d = conn.callRemoteMessage(mcall, timeout=timeout)

            def done(r, k=k):
                results[k].append(
                    ('ok', r.body) if hasattr(r, 'body') and
                    not hasattr(r, 'errName') and
                    not isinstance(r, Exception) and
                    not hasattr(r, 'value') else
                    ('err', getattr(getattr(r, 'value', r), 'errName',
                                    type(getattr(r, 'value', r)).__name__)))
                if k < chain:
                    use(k + 1)
            d.addBoth(done)
        use(0)
        serial = cw.sent()[0]['serial']
        kinds = [first] + [second] * chain
        for k, kind in enumerate(kinds):
            if kind == 'return':
                raw = R.encode_message(R.METHOD_RETURN, 700 + k,
                                       {'reply_serial': serial}, 'u', [k])
            else:
                raw = R.encode_message(R.ERROR, 700 + k,
                                       {'reply_serial': serial,
                                        'error_name': 'a.b.E%d' % k})
            conn.dataReceived(raw)
            cw.sent()
        cw.clock.advance(1000)
        want = [[('ok', [k])] if kind == 'return' else
                [('err', 'a.b.E%d' % k)] for k, kind in enumerate(kinds)]
        if results != want:
            viol.append(('resend/%s-%s/%s' % (first, second,
                                              'deadline' if timeout else
                                              'no-deadline'),
                         'a call message sent again from the handler of its '
                         'previous answer (%d times; answers %r; timeout %r): '
                         'the uses completed with %r, expected %r'
                         % (chain, kinds, timeout, results, want)))
        left = [c for c in cw.clock.getDelayedCalls() if c.active()]
        if left:
            viol.append(('resend/timer-left',
                         '%d timer(s) left after every use was answered'
                         % len(left)))
    except Exception as e:
        viol.append(('resend/raises-%s' % type(e).__name__,
                     'first %s, then %s, timeout %r: raised %r'
                     % (first, second, timeout, e)))
    finally:
        cw.close()
    return viol


def run_coalesced_disconnect(n, at, kinds):
    """n calls answered in one read; the handler of answer number `at` asks
    for the connection to be closed (disconnect()); the loss is reported
    afterwards, as real transports do.  Answers that had arrived complete
    their calls with their own content."""
    viol = []
    cw = fakes.ClientWorld()
    try:
        cw.sent()
        conn = cw.conn
        results = [[] for _ in range(n)]
        serials = []
        for i in range(n):
            d = conn.callRemote('/o', 'M%d' % i, interface='a.b',
                                destination='c.d', timeout=(5 if i % 2
                                                            else None))

            def done(r, i=i):
                results[i].append(
                    ('err', getattr(r.value, 'errName',
                                    type(r.value).__name__))
                    if hasattr(r, 'value') else ('ok', r))
                if i == at:
                    conn.disconnect()
            d.addBoth(done)
            serials.append(cw.sent()[0]['serial'])
        data = b''
        for i in range(n):
            # (answers from peers of either byte order, as a bus forwards
            # them, in one read)
            if kinds[i] == 'return':
                data += R.encode_message(R.METHOD_RETURN, 800 + i,
                                         {'reply_serial': serials[i]}, 's',
                                         ['for-%d' % i],
                                         little=(i + at) % 2 == 0)
            else:
                data += R.encode_message(R.ERROR, 800 + i,
                                         {'reply_serial': serials[i],
                                          'error_name': 'a.b.E%d' % i},
                                         little=(i + at) % 2 == 1)
        conn.dataReceived(data)
        conn.connectionLost(fakes.lost_reason())
        cw.clock.advance(1000)
        want = [[('ok', 'for-%d' % i)] if kinds[i] == 'return' else
                [('err', 'a.b.E%d' % i)] for i in range(n)]
        if results != want:
            viol.append(('coalesced-disconnect/%d-of-%d' % (at, n),
                         '%d calls answered in one read (%r); the handler of '
                         'answer %d called disconnect(): the calls completed '
                         'with %r, the answers were %r'
                         % (n, kinds, at, results, want)))
        left = [c for c in cw.clock.getDelayedCalls() if c.active()]
        if left:
            viol.append(('coalesced-disconnect/timer-left',
                         '%d timer(s) left' % len(left)))
    except Exception as e:
        viol.append(('coalesced-disconnect/raises-%s' % type(e).__name__,
                     '%d calls, disconnect at %d: raised %r' % (n, at, e)))
    finally:
        cw.close()
    return viol


def run_long_lived(gap, order, timeout, filler):
    """call A stays unanswered while the process builds `gap`-1 further
    messages (signals nobody sends, or calls on the same connection that are
    answered at once); then call B is made and both are answered, in either
    order: each completes with its own answer"""
    from mcx import scale
    viol = []
    cw = fakes.ClientWorld()
    try:
        cw.sent()
        conn = cw.conn
        results = {'A': [], 'B': []}

        def call(tag):
            d = conn.callRemote('/o', 'Get' + tag, interface='a.b',
                                destination='c.d', timeout=timeout)
            d.addBoth(lambda r: results[tag].append(
                ('err', getattr(r.value, 'errName', type(r.value).__name__))
                if hasattr(r, 'value') else ('ok', r)))
            return cw.sent()[0]['serial']
        sa = call('A')
        if filler == 'signals':
            scale.build_messages(gap - 1)
        else:
            left = gap - 1
            while left > 0:
                chunk = min(left, 97)
                ds = []
                for _ in range(chunk):
                    out = []
                    d = conn.callRemote('/o', 'Fill', interface='a.b',
                                        destination='c.d')
                    d.addBoth(out.append)
                    ds.append(out)
                sent = cw.sent()
                data = b''.join(R.encode_message(
                    R.METHOD_RETURN, 5, {'reply_serial': m['serial']}, 'u',
                    [9]) for m in sent)
                conn.dataReceived(data)
                if any(o != [9] for o in ds):
                    viol.append(('long-lived/filler',
                                 'a filler call was not completed by its '
                                 'answer: %r' % [o for o in ds
                                                 if o != [9]][:3]))
                    return viol
                left -= chunk
        sb = call('B')
        for tag in order:
            conn.dataReceived(R.encode_message(
                R.METHOD_RETURN, 900, {'reply_serial': sa if tag == 'A'
                                       else sb}, 's', ['for-' + tag]))
        cw.clock.advance(1000)
        want = {'A': [('ok', 'for-A')], 'B': [('ok', 'for-B')]}
        if results != want:
            viol.append(('long-lived/%s' % ('same-serial' if sa == sb else
                                            'wrong-completion'),
                         'call A (serial %d) was outstanding while %d other '
                         'messages were built, then call B (serial %d) was '
                         'made; answers delivered in the order %s: the calls '
                         'completed with %r, expected %r'
                         % (sa, gap - 1, sb, order, results, want)))
    except Exception as e:
        viol.append(('long-lived/raises-%s' % type(e).__name__,
                     'gap %d: raised %r' % (gap, e)))
    finally:
        cw.close()
    return viol


def run_subclassed(order, kinds):
    """calls made with message objects of application subclasses of
    MethodCallMessage (callRemoteMessage) next to plain callRemote calls,
    with other messages (a signal, a return, an error) built in between:
    every call has a serial of its own and completes with its own answer"""
    from txdbus import message as M
    viol = []
    cw = fakes.ClientWorld()
    try:
        cw.sent()
        conn = cw.conn

        class PeerPing(M.MethodCallMessage):
            pass

        class PeerPong(PeerPing):
            extra = 'application attribute'
        results = {}
        serials = {}

        def sink(tag):
            results[tag] = []
            return lambda r: results[tag].append(
                ('err', getattr(r.value, 'errName', type(r.value).__name__))
                if hasattr(r, 'value') else
                ('ok', r.body if hasattr(r, 'body') else r))
        for tag in kinds:
            if tag.rstrip('2') == 'plain':
                d = conn.callRemote('/o', 'Plain', interface='a.b',
                                    destination='c.d')
            elif tag == 'signal':
                conn.sendMessage(M.SignalMessage('/o', 'S', 'a.b'))
                M.MethodReturnMessage(5)
                M.ErrorMessage('a.b.E', 5)
                cw.sent()
                continue
            else:
                cls = {'sub': PeerPing, 'subsub': PeerPong,
                       'base': M.MethodCallMessage}[tag.rstrip('2')]
                d = conn.callRemoteMessage(cls(
                    '/o', 'Ping', interface='a.b', destination='c.d'))
            d.addBoth(sink(tag))
            out = [m for m in cw.sent() if m['type'] == 1]
            serials[tag] = out[0]['serial'] if len(out) == 1 else None
        calls = [t for t in kinds if t != 'signal']
        if None in serials.values() or \
                len(set(serials.values())) != len(calls):
            viol.append(('subclassed/serials',
                         'calls %r went out with the serials %r'
                         % (calls, serials)))
            return viol
        seq = calls if order == 'fifo' else calls[::-1]
        for tag in seq:
            conn.dataReceived(R.encode_message(
                R.METHOD_RETURN, 950, {'reply_serial': serials[tag]}, 's',
                ['for-' + tag]))
        cw.clock.advance(1000)
        for tag in calls:
            got = results[tag]
            ok = len(got) == 1 and got[0][0] == 'ok' and \
                got[0][1] in ('for-' + tag, ['for-' + tag])
            if not ok:
                viol.append(('subclassed/completion',
                             'calls %r (serials %r) answered in %s order: '
                             'call %r completed with %r'
                             % (calls, serials, order, tag, got)))
                break
    except Exception as e:
        viol.append(('subclassed/raises-%s' % type(e).__name__,
                     'calls %r: raised %r' % (kinds, e)))
    finally:
        cw.close()
    return viol


SUBCLASSED = [('plain', 'sub'), ('sub', 'plain'), ('plain', 'sub', 'plain2'),
              ('sub', 'subsub', 'base'), ('plain', 'signal', 'sub'),
              ('sub', 'signal', 'plain', 'subsub'), ('sub', 'sub2'),
              ('base', 'plain', 'sub', 'signal', 'subsub', 'sub2')]


def _task_long_lived(task):
    res = core.Result()
    gap, filler = task
    for order in ('AB', 'BA'):
        for timeout in (None, 5):
            res.count('states')
            res.count('transitions', gap + 3)
            res.count('evaluations')
            res.count('nontrivial')
            for t, w in run_long_lived(gap, order, timeout, filler):
                res.violation('%s/%s' % (PROP, t), w,
                              {'part': 'long-lived', 'args':
                               [gap, order, timeout, filler]}, size=gap)
    return res


def _task_resend(_):
    res = core.Result()
    for first in ('return', 'error'):
        for second in ('return', 'error'):
            for timeout in (None, 5):
                for chain in (1, 2):
                    res.count('states')
                    res.count('transitions', chain + 1)
                    res.count('evaluations')
                    res.count('nontrivial')
                    for t, w in run_resend(first, second, timeout, chain):
                        res.violation('%s/%s' % (PROP, t), w,
                                      {'part': 'resend', 'args':
                                       [first, second, timeout, chain]},
                                      size=chain)
    for kinds in SUBCLASSED:
        for order in ('fifo', 'lifo'):
            res.count('states')
            res.count('transitions', len(kinds) * 2)
            res.count('evaluations')
            res.count('nontrivial')
            for t, w in run_subclassed(order, kinds):
                res.violation('%s/%s' % (PROP, t), w,
                              {'part': 'subclassed', 'args':
                               [order, list(kinds)]}, size=len(kinds))
    for n in (2, 3):
        for at in range(n):
            for kinds in itertools.product(('return', 'error'), repeat=n):
                res.count('states')
                res.count('transitions', n)
                res.count('evaluations')
                res.count('nontrivial')
                for t, w in run_coalesced_disconnect(n, at, kinds):
                    res.violation('%s/%s' % (PROP, t), w,
                                  {'part': 'coalesced', 'args':
                                   [n, at, list(kinds)]}, size=n)
    return res


def replay(data):
    if data.get('part') == 'coalesced':
        return [('%s/%s' % (PROP, t), w)
                for t, w in run_coalesced_disconnect(*data['args'])]
    if data.get('part') == 'long-lived':
        return [('%s/%s' % (PROP, t), w)
                for t, w in run_long_lived(*data['args'])]
    if data.get('part') == 'subclassed':
        return [('%s/%s' % (PROP, t), w)
                for t, w in run_subclassed(data['args'][0],
                                           tuple(data['args'][1]))]
    if data.get('part') == 'resend':
        return [('%s/%s' % (PROP, t), w)
                for t, w in run_resend(*data['args'])]
    return explore.replay_violation(data)
