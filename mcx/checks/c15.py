"""
C15 - the introspection XML generated for an object round-trips every
interface definition; known interfaces are reused unless replacement is
requested.
"""
import itertools
import xml.etree.ElementTree as ET

from mcx import core, fakes, space, refcodec as R

PROP = 'C15'


def sig_pool(quick):
    pool = ['']
    pool += [c for c in 'ybnqiuxtdsogvh']
    pool += ['ay', 'as', 'av', 'a{sv}', '(ii)', 'a(si)', 'aas', 'a{sa{sv}}',
             '(s(ii))', 'a{ss}', '(v)', 'ah', 'a{yv}', '((y))']
    pool += ['ii', 'sas', 'a{ss}x', 'yyy', '(i)(s)', 'asas', 'ia{sv}s',
             'v(v)av', 'a{s(ii)}(ay)', 'sss', 'a(yv)g', 'oa{oa{sa{sv}}}']
    if not quick:
        pool += [space.sig_of(ts) for i, ts in
                 enumerate(space.sequences(3, space.REDUCED)) if i % 23 == 0]
        pool = list(dict.fromkeys(pool))
    return pool


ACCESS = [(True, False, 'read'), (False, True, 'write'),
          (True, True, 'readwrite')]
EMITS = [True, False, 'invalidates']


def definitions(quick):
    """interface definitions: dict(name, methods[(name,in,out)],
    signals[(name,sig)], props[(name,sig,readable,writeable,emits)])"""
    pool = sig_pool(quick)
    n = 0
    # every (in, out) pair as a single-method interface
    for a, b in itertools.product(pool, repeat=2):
        n += 1
        yield dict(name='org.ex.D%d' % n, methods=[('M', a, b)], signals=[],
                   props=[])
    # every signal signature, alone and next to a method
    for a in pool:
        n += 1
        yield dict(name='org.ex.D%d' % n, methods=[], signals=[('S', a)],
                   props=[])
        n += 1
        yield dict(name='org.ex.D%d' % n, methods=[('S', a, 's')],
                   signals=[('S', a), ('T', 's')], props=[])
    # properties: every single type x access x notification
    single = [s for s in pool if s and len(R.parse_sig(s)) == 1]
    for s in single:
        for (r, w, acc) in ACCESS:
            for e in EMITS:
                n += 1
                yield dict(name='org.ex.D%d' % n, methods=[], signals=[],
                           props=[('P', s, r, w, e)])
    # fuller interfaces: 2 (3) members of each kind
    k = 2 if quick else 3
    trip = list(itertools.product(pool[::5], repeat=2))
    for i in range(0, len(trip) - k, k):
        n += 1
        ms = [('M%d' % j, trip[i + j][0], trip[i + j][1]) for j in range(k)]
        ss = [('S%d' % j, trip[i + j][1]) for j in range(k)]
        ps = [('P%d' % j, single[(i + j) % len(single)],
               ACCESS[(i + j) % 3][0], ACCESS[(i + j) % 3][1],
               EMITS[(i + j) % 3]) for j in range(k)]
        yield dict(name='org.ex.D%d' % n, methods=ms, signals=ss, props=ps)
    # the empty interface
    n += 1
    yield dict(name='org.ex.D%d' % n, methods=[], signals=[], props=[])


def build_iface(d, register=False):
    from txdbus import interface as I
    members = [I.Method(n, a, b) for n, a, b in d['methods']]
    members += [I.Signal(n, s) for n, s in d['signals']]
    members += [I.Property(n, s, readable=r, writeable=w, emitsOnChange=e)
                for n, s, r, w, e in d['props']]
    if register:
        return I.DBusInterface(d['name'], *members)
    return I.DBusInterface(d['name'], *members, noRegister=True)


def make_object(ifaces, falsy=False):
    from txdbus import objects as O

    class Obj(O.DBusObject):
        dbusInterfaces = list(ifaces)

    if falsy:
        # a container-like application object, empty at the moment: its
        # truth value is False
        class Empty(Obj):
            def __len__(self):
                return 0
        return Empty('/o')
    return Obj('/o')


def describe(i):
    """comparable summary of a DBusInterface"""
    return {
        'name': i.name,
        'methods': {n: (m.sigIn, m.sigOut, m.nargs, m.nret)
                    for n, m in i.methods.items()},
        'signals': {n: (s.sig, s.nargs) for n, s in i.signals.items()},
        'props': {n: (p.sig, p.access) for n, p in i.properties.items()},
    }


def expected(d):
    return {
        'name': d['name'],
        'methods': {n: (a, b, len(R.split_sig(a)), len(R.split_sig(b)))
                    for n, a, b in d['methods']},
        'signals': {n: (s, len(R.split_sig(s))) for n, s in d['signals']},
        'props': {n: (s, 'readwrite' if r and w else 'write' if w else 'read')
                  for n, s, r, w, e in d['props']},
    }


class StubConn:
    def __init__(self):
        self.calls = []

    def callRemote(self, path, method, **kw):
        self.calls.append((path, method, kw))
        return 'sent'


class StubHandler:
    def __init__(self):
        self.conn = StubConn()


def check_object(res, defs, known=(), replace=True, failed_first=False):
    """defs: interface definitions exported by one object, in order; `known`:
    indexes of definitions that are also registered locally (as different
    objects with the same content)"""
    from txdbus import introspection as X, objects as O, interface as I
    res.count('evaluations')
    res.count('transitions')
    res.count('states')
    tag = 'ifaces=%d/known=%d/replace=%s' % (len(defs), len(known), replace)
    if failed_first:
        tag += '/after-failed-declaration'
    rep = {'defs': defs, 'known': list(known), 'replace': replace,
           'failed_first': failed_first}
    with fakes.KnownInterfaces():
        if failed_first:
            # local declarations under the same names that fail part-way (a
            # typo in a signature, a stray argument): a declaration that
            # raised has declared nothing
            for d in defs:
                members = [I.Method(n, a, b) for n, a, b in d['methods'][:1]]
                members += [I.Signal(n, s) for n, s in d['signals'][:1]]
                for bad in (lambda: I.Method('Broken', 'a(i', ''),
                            lambda: object()):
                    try:
                        I.DBusInterface(d['name'], *(members + [bad()]))
                    except Exception:
                        pass
        try:
            ifaces = [build_iface(d) for d in defs]
            registered = {}
            for k in known:
                registered[defs[k]['name']] = build_iface(defs[k],
                                                          register=True)
            obj = make_object(ifaces, falsy=sum(
                len(d['name']) + len(d['methods']) for d in defs) % 3 == 0)
            xml = X.generateIntrospectionXML('/o', {'/o': obj})
        except Exception as e:
            res.violation('%s/generate-raises-%s' % (PROP, type(e).__name__),
                          'generating XML for %r raised %r'
                          % ([d['name'] for d in defs], e), rep,
                          size=len(defs))
            return
        # well-formed for an independent parser; one <arg> per complete type
        try:
            root = ET.fromstring(xml[xml.index('<node'):])
            for d in defs:
                el = [x for x in root.findall('interface')
                      if x.get('name') == d['name']]
                if len(el) != 1:
                    raise ValueError('interface %s appears %d times'
                                     % (d['name'], len(el)))
                for n, a, b in d['methods']:
                    m = [x for x in el[0].findall('method')
                         if x.get('name') == n][0]
                    ins = [x.get('type') for x in m.findall('arg')
                           if x.get('direction') == 'in']
                    outs = [x.get('type') for x in m.findall('arg')
                            if x.get('direction') == 'out']
                    if ins != R.split_sig(a) or outs != R.split_sig(b):
                        raise ValueError(
                            'method %s(%r -> %r) has <arg>s in=%r out=%r'
                            % (n, a, b, ins, outs))
                for n, s in d['signals']:
                    m = [x for x in el[0].findall('signal')
                         if x.get('name') == n][0]
                    args = [x.get('type') for x in m.findall('arg')]
                    if args != R.split_sig(s):
                        raise ValueError('signal %s(%r) has <arg>s %r'
                                         % (n, s, args))
        except Exception as e:
            res.violation('%s/xml/%s' % (PROP, type(e).__name__),
                          'XML generated for %r: %s'
                          % ([d['name'] for d in defs], e), rep,
                          size=len(defs))
            return
        try:
            parsed = X.getInterfacesFromXML(xml, replace)
        except Exception as e:
            res.violation('%s/parse-raises-%s/%s' % (PROP, type(e).__name__,
                                                     tag),
                          'parsing the generated XML raised %r' % (e,), rep,
                          size=len(defs))
            return
        by_name = {}
        for i in parsed:
            by_name.setdefault(i.name, []).append(i)
        for k, d in enumerate(defs):
            got = by_name.get(d['name'], [])
            if len(got) != 1:
                res.violation('%s/interface-lost/%s' % (PROP, tag),
                              'interface %s (position %d of %d, known '
                              'locally: %r) came back %d times'
                              % (d['name'], k, len(defs), sorted(registered),
                                 len(got)), rep, size=len(defs))
                continue
            g = got[0]
            if not replace and d['name'] in registered:
                if g is not registered[d['name']]:
                    res.violation('%s/known-not-reused/%s' % (PROP, tag),
                                  'known interface %s was re-parsed instead '
                                  'of reused' % d['name'], rep,
                                  size=len(defs))
                continue
            if replace and d['name'] in registered and \
                    g is registered[d['name']]:
                res.violation('%s/known-not-replaced/%s' % (PROP, tag),
                              'replacement requested but the known object '
                              'for %s was reused' % d['name'], rep,
                              size=len(defs))
                continue
            if replace and I.DBusInterface.knownInterfaces.get(
                    d['name']) is not g:
                res.violation('%s/registry-not-replaced/%s' % (PROP, tag),
                              'replacement requested: the parsed definition '
                              'of %s was returned but the local registry '
                              'still holds %s' % (
                                  d['name'], 'the old object' if
                                  d['name'] in registered else 'nothing'),
                              rep, size=len(defs))
                continue
            want = expected(d)
            have = describe(g)
            if have != want:
                diff = [k2 for k2 in want if want[k2] != have[k2]]
                res.violation('%s/roundtrip/%s/%s' % (PROP, diff[0], tag),
                              'interface %s came back as %r, declared %r'
                              % (d['name'], {x: have[x] for x in diff},
                                 {x: want[x] for x in diff}), rep,
                              size=len(defs))
                continue
            res.outcome(repr(sorted(want['methods'].values()))[:80])
        # standard interfaces are there as well
        for std in ('org.freedesktop.DBus.Introspectable',
                    'org.freedesktop.DBus.Properties'):
            if std not in by_name:
                res.violation('%s/standard-interface-lost/%s' % (PROP, tag),
                              '%s missing from the parsed interfaces (known '
                              'locally: %r)' % (std, sorted(registered)),
                              rep, size=len(defs))
        # a proxy over the parsed interfaces accepts exactly the declared
        # calls
        try:
            h = StubHandler()
            prox = O.RemoteDBusObject(h, 'org.ex.Dest', '/o',
                                      [i for i in parsed])
            for d in defs:
                for n, a, b in d['methods']:
                    nargs = len(R.split_sig(a))
                    for k2 in (nargs - 1, nargs, nargs + 1):
                        if k2 < 0:
                            continue
                        h.conn.calls = []
                        try:
                            prox.callRemote(n, *(['x'] * k2),
                                            interface=d['name'])
                            ok = True
                        except TypeError:
                            ok = False
                        if ok != (k2 == nargs):
                            res.violation(
                                '%s/proxy/arg-count' % PROP,
                                'proxy for %s.%s(%r) %s a call with %d '
                                'arguments' % (d['name'], n, a, 'accepted'
                                               if ok else 'refused', k2),
                                rep, size=len(defs))
                        elif ok:
                            kw = h.conn.calls[0][2]
                            if (kw.get('signature') or '') != a or \
                                    (kw.get('returnSignature') or '') != b \
                                    or kw.get('interface') != d['name']:
                                res.violation(
                                    '%s/proxy/signature' % PROP,
                                    'proxy call %s.%s sends signature %r / '
                                    'expects %r / interface %r; declared %r '
                                    '-> %r' % (d['name'], n,
                                               kw.get('signature'),
                                               kw.get('returnSignature'),
                                               kw.get('interface'), a, b),
                                    rep, size=len(defs))
            # a call that names no interface: the proxy built from the XML
            # and a proxy built from the exporter's own declarations (in the
            # exporter's order) take the same decision and send the same
            # call
            if len(defs) > 1:
                h2 = StubHandler()
                declared = O.RemoteDBusObject(
                    h2, 'org.ex.Dest', '/o', [build_iface(d) for d in defs])
                names = sorted({n for d in defs for n, a, b in d['methods']})
                counts = sorted({len(R.split_sig(a)) for d in defs
                                 for n, a, b in d['methods']})
                for n in names:
                    for k2 in counts:
                        out = []
                        for hh, pp in ((h, prox), (h2, declared)):
                            hh.conn.calls = []
                            try:
                                pp.callRemote(n, *(['x'] * k2))
                                kw = hh.conn.calls[0][2]
                                out.append(('sent', kw.get('interface'),
                                            kw.get('signature') or ''))
                            except TypeError:
                                out.append(('refused',))
                        if out[0] != out[1]:
                            res.violation(
                                '%s/proxy/no-interface' % PROP,
                                'interfaces %r: %s with %d argument(s) and '
                                'no interface named: the proxy built from '
                                'the XML %r, a proxy built from the '
                                'declarations %r'
                                % ([d['name'] for d in defs], n, k2, out[0],
                                   out[1]), rep, size=len(defs))
        except Exception as e:
            res.violation('%s/proxy/raises-%s' % (PROP, type(e).__name__),
                          'building/using a proxy over the parsed interfaces '
                          'raised %r' % (e,), rep, size=len(defs))


def _task_single(task):
    quick, part, nparts = task
    res = core.Result()
    for i, d in enumerate(definitions(quick)):
        if i % nparts != part:
            continue
        check_object(res, [d])
        if i % 5 == 0:
            check_object(res, [d], (), False, failed_first=True)
        if d['methods'] or d['signals'] or d['props']:
            res.count('nontrivial')
        if i % 400 == 0:
            res.sample({'interface': d})
    return res


def _task_multi(task):
    quick, part, nparts = task
    res = core.Result()
    defs = [d for i, d in enumerate(definitions(quick)) if i % 97 == 0][:12]
    n = 0
    for k in (2, 3):
        for combo in itertools.permutations(range(len(defs) if not quick
                                                  else 6), k):
            sel = [defs[c] for c in combo]
            n += 1
            if n % nparts != part:
                continue
            # all variants of one selection run in one process, one after the
            # other: the same XML text is parsed again and again while what
            # is known locally changes in between
            for known in itertools.chain.from_iterable(
                    itertools.combinations(range(k), r)
                    for r in range(k + 1)):
                for replace in (True, False, True, False):
                    check_object(res, sel, known, replace)
                    res.count('nontrivial')
    res.sample({'objects_with_interfaces': 'every ordered selection of 2 and '
                '3 definitions x every subset known locally x replace flag'})
    return res


def _task_incremental(task):
    """definitions built step by step (add / re-declare / delete members)
    with the XML read after every step: each reading must describe the
    definition as it is at that moment"""
    quick, part, nparts = task
    from txdbus import introspection as X, interface as I
    res = core.Result()
    members = [
        ('m', ('Ma', 's', 'i')), ('m', ('Mb', '', 'a{sv}')),
        ('s', ('Sa', 'ay')), ('s', ('Sb', '')),
        ('p', ('Pa', 's', True, False, True)),
        ('p', ('Pb', 'u', True, True, False)),
        ('p', ('Pa', 's', False, True, 'invalidates')),   # re-declares Pa
        ('m', ('Ma', 'ii', '')),                          # re-declares Ma
        ('dm', 'Mb'), ('ds', 'Sa'), ('dp', 'Pb'),
    ]
    n = 0
    for k in (2, 3, 4) if quick else (2, 3, 4, 5):
        for seq in itertools.permutations(range(len(members)), k):
            n += 1
            if n % nparts != part:
                continue
            if quick and k == 4 and n % 5:
                continue
            if not quick and k == 5 and n % 7:
                continue
            steps = [members[i] for i in seq]
            res.count('states')
            res.count('nontrivial')
            iface = I.DBusInterface('org.ex.Inc', noRegister=True)
            obj = make_object([iface])
            cur = {'methods': {}, 'signals': {}, 'props': {}}
            ok = True
            for si, (kind, spec) in enumerate(steps):
                try:
                    if kind == 'm':
                        iface.addMethod(I.Method(*spec))
                        cur['methods'][spec[0]] = spec
                    elif kind == 's':
                        iface.addSignal(I.Signal(*spec))
                        cur['signals'][spec[0]] = spec
                    elif kind == 'p':
                        iface.addProperty(I.Property(
                            spec[0], spec[1], readable=spec[2],
                            writeable=spec[3], emitsOnChange=spec[4]))
                        cur['props'][spec[0]] = spec
                    elif kind == 'dm':
                        if spec not in cur['methods']:
                            continue
                        iface.delMethod(spec)
                        del cur['methods'][spec]
                    elif kind == 'ds':
                        if spec not in cur['signals']:
                            continue
                        iface.delSignal(spec)
                        del cur['signals'][spec]
                    elif kind == 'dp':
                        if spec not in cur['props']:
                            continue
                        iface.delProperty(spec)
                        del cur['props'][spec]
                    res.count('transitions')
                    res.count('evaluations')
                    xml = X.generateIntrospectionXML('/o', {'/o': obj})
                    with fakes.KnownInterfaces():
                        parsed = X.getInterfacesFromXML(xml, True)
                    got = [i for i in parsed if i.name == 'org.ex.Inc']
                    d = dict(name='org.ex.Inc',
                             methods=list(cur['methods'].values()),
                             signals=list(cur['signals'].values()),
                             props=list(cur['props'].values()))
                    if len(got) != 1 or describe(got[0]) != expected(d):
                        res.violation(
                            '%s/incremental/stale-after-%s' % (PROP, kind),
                            'after the steps %r the XML describes %r, the '
                            'definition is %r'
                            % (steps[:si + 1],
                               describe(got[0]) if got else None,
                               expected(d)),
                            {'incremental': [list(map(str, st))
                                             for st in steps]},
                            size=si + 1)
                        ok = False
                        break
                except Exception as e:
                    res.violation('%s/incremental/raises-%s'
                                  % (PROP, type(e).__name__),
                                  'steps %r raised %r' % (steps[:si + 1], e),
                                  {'incremental': [list(map(str, st))
                                                   for st in steps]},
                                  size=si + 1)
                    break
            if ok and n % 300 == 0:
                res.sample({'incremental_steps': [str(st) for st in steps]})
    return res


def _task_names(task):
    """interface names that are textually related to the standard ones the
    library always adds (a prefix, a substring, an extension): user
    interfaces are user interfaces whatever they are called"""
    quick = task
    res = core.Result()
    base = [d for d in definitions(quick)
            if d['methods'] and d['signals']][:2]
    names = ['org.freedesktop.DBus', 'org.freedesktop', 'freedesktop.DBus',
             'org.freedesktop.DBus.Prop', 'org.freedesktop.DBus.PeerX',
             'org.freedesktop.DBus.Properties.Extra', 'DBus.Peer',
             'org.freedesktop.DBus.ObjectManage']
    for d in base:
        for nm in names:
            d2 = dict(d, name=nm)
            check_object(res, [d2])
            check_object(res, [d2], (), False)
            res.count('nontrivial')
    return res


def _task_hierarchy(task):
    """objects of a class hierarchy (each level adding an interface) and a
    plain DBusObject, introspected in every order: each XML lists exactly
    the interfaces of the object's class and its bases"""
    quick = task
    from txdbus import introspection as X, objects as O
    res = core.Result()
    defs = [d for i, d in enumerate(definitions(quick)) if i % 97 == 0
            and (d['methods'] or d['signals'])][:3]
    std = {'org.freedesktop.DBus.Properties',
           'org.freedesktop.DBus.Introspectable',
           'org.freedesktop.DBus.Peer',
           'org.freedesktop.DBus.ObjectManager'}
    for order in itertools.permutations(range(4)):
        res.count('states')
        res.count('evaluations')
        res.count('nontrivial')
        with fakes.KnownInterfaces():
            ifaces = [build_iface(d) for d in defs]

            class Base(O.DBusObject):
                dbusInterfaces = [ifaces[0]]

            class Mid(Base):
                dbusInterfaces = [ifaces[1]]

            class Leaf(Mid):
                dbusInterfaces = [ifaces[2]]
            objs = [(O.DBusObject('/plain'), []), (Base('/base'), [0]),
                    (Mid('/mid'), [0, 1]), (Leaf('/leaf'), [0, 1, 2])]
            for k in order:
                res.count('transitions')
                obj, want_idx = objs[k]
                path = obj.getObjectPath()
                rep = {'hierarchy': list(order)}
                try:
                    xml = X.generateIntrospectionXML(path, {path: obj})
                    root = ET.fromstring(xml[xml.index('<node'):])
                    got = sorted(x.get('name')
                                 for x in root.findall('interface')
                                 if x.get('name') not in std)
                    want = sorted(defs[i]['name'] for i in want_idx)
                    if got != want:
                        res.violation(
                            '%s/hierarchy/%s' % (PROP, 'missing' if set(want)
                                                 - set(got) else 'extra'),
                            'objects introspected in the order %r (0 plain '
                            'DBusObject, 1 base, 2 middle, 3 leaf class): '
                            'the XML of %s lists %r, its classes declare %r'
                            % (list(order), path, got, want), rep, size=1)
                        continue
                    parsed = X.getInterfacesFromXML(xml, True)
                    for i in want_idx:
                        pi = [x for x in parsed if x.name == defs[i]['name']]
                        if len(pi) != 1 or describe(pi[0]) != \
                                expected(defs[i]):
                            res.violation(
                                '%s/hierarchy/parsed' % PROP,
                                'order %r: interface %s of %s did not come '
                                'back as declared' % (list(order),
                                                      defs[i]['name'], path),
                                rep, size=1)
                except Exception as e:
                    res.violation('%s/hierarchy/raises-%s'
                                  % (PROP, type(e).__name__),
                                  'order %r, %s: %r' % (list(order), path, e),
                                  rep, size=1)
    return res


def run_many_known(n, via):
    """a process that knows many interfaces: one is declared locally, then
    n-1 others become known (declared locally, or learnt by introspecting
    peers); XML from a peer describing the first one differently still
    yields the locally declared definition (no replacement asked for), and
    with replacement the peer's"""
    from txdbus import interface as I, introspection as X
    viol = []
    with fakes.KnownInterfaces():
        try:
            mine = I.DBusInterface('org.ex.Mine', I.Method('M', 's', 'u'),
                                   I.Signal('S', 'i'))
            theirs = I.DBusInterface('org.ex.Mine', I.Method('M', 'ss', ''),
                                     I.Method('Extra', '', 's'),
                                     noRegister=True)
            xml = X.generateIntrospectionXML('/o', {'/o': make_object(
                [theirs])})
            if via == 'declared':
                for i in range(n - 1):
                    I.DBusInterface('org.ex.K%d' % i, I.Method('M', '', ''))
            else:
                left = n - 1
                i = 0
                while left > 0:
                    k = min(left, 50)
                    others = [I.DBusInterface('org.ex.K%d' % (i + j),
                                              I.Method('M', 'y', ''),
                                              noRegister=True)
                              for j in range(k)]
                    X.getInterfacesFromXML(X.generateIntrospectionXML(
                        '/p', {'/p': make_object(others)}), False)
                    i += k
                    left -= k
            got = [x for x in X.getInterfacesFromXML(xml, False)
                   if x.name == 'org.ex.Mine']
            if len(got) != 1 or describe(got[0]) != describe(mine):
                viol.append(('many-known/%s/local-definition-lost' % via,
                             'org.ex.Mine declared locally, then %d other '
                             'interfaces %s; a peer\'s XML describing '
                             'org.ex.Mine differently, parsed without '
                             'replacement, gave %r instead of the local %r'
                             % (n - 1, 'declared' if via == 'declared' else
                                'learnt from peers',
                                [describe(g) for g in got], describe(mine))))
            again = I.DBusInterface.knownInterfaces.get('org.ex.Mine')
            if again is None or describe(again) != describe(mine):
                viol.append(('many-known/%s/forgotten' % via,
                             'after %d other interfaces became known, the '
                             'locally declared org.ex.Mine is known as %r'
                             % (n - 1, again and describe(again))))
            got = [x for x in X.getInterfacesFromXML(xml, True)
                   if x.name == 'org.ex.Mine']
            if len(got) != 1 or describe(got[0]) != describe(theirs):
                viol.append(('many-known/%s/replacement' % via,
                             'with replacement the peer\'s definition is '
                             'expected, got %r' % ([describe(g)
                                                    for g in got],)))
        except Exception as e:
            viol.append(('many-known/raises-%s' % type(e).__name__,
                         '%d known interfaces: %r' % (n, e)))
    return viol


def run_relearn(first_replace, second_replace, third):
    """an interface name not declared locally is learnt from a peer's XML;
    later a peer describes the name differently (a service was upgraded):
    parsed with replacement it is the new definition that comes back and is
    known from then on, without replacement the one learnt first"""
    from txdbus import interface as I, introspection as X
    viol = []
    with fakes.KnownInterfaces():
        try:
            def xml_of(*members):
                ifc = I.DBusInterface('org.ex.Up', *members, noRegister=True)
                return X.generateIntrospectionXML(
                    '/o', {'/o': make_object([ifc])}), describe(ifc)
            x1, d1 = xml_of(I.Method('M', 's', 'u'), I.Signal('S', 'i'))
            x2, d2 = xml_of(I.Method('M', 'ss', ''), I.Method('N', '', 's'),
                            I.Property('P', 'u'))
            x3, d3 = xml_of(I.Method('Q', 'a{sv}', 'v'))

            def parse(x, replace):
                got = [i for i in X.getInterfacesFromXML(x, replace)
                       if i.name == 'org.ex.Up']
                return describe(got[0]) if len(got) == 1 else \
                    '%d interfaces' % len(got)
            steps = [(x1, d1, first_replace), (x2, d2, second_replace)]
            if third is not None:
                steps.append((x3, d3, third))
            current = None
            for n, (x, d, replace) in enumerate(steps):
                want = d if (replace or current is None) else current
                got = parse(x, replace)
                if got != want:
                    viol.append(('relearn/%s' % ('stale' if replace
                                                 else 'replaced-unasked'),
                                 'definitions of org.ex.Up offered one '
                                 'after the other with replace flags %r: '
                                 'step %d gave %r, expected %r'
                                 % ([s_[2] for s_ in steps], n, got, want)))
                    break
                current = want
                known = I.DBusInterface.knownInterfaces.get('org.ex.Up')
                if known is None or describe(known) != current:
                    viol.append(('relearn/registry',
                                 'after step %d (flags %r) the known '
                                 'definition of org.ex.Up is %r, expected %r'
                                 % (n, [s_[2] for s_ in steps],
                                    known and describe(known), current)))
                    break
        except Exception as e:
            viol.append(('relearn/raises-%s' % type(e).__name__, '%r' % (e,)))
    return viol


def _task_relearn(_):
    res = core.Result()
    for a in (False, True):
        for b in (False, True):
            for c in (None, False, True):
                res.count('states')
                res.count('transitions', 3)
                res.count('evaluations', 3)
                res.count('nontrivial')
                for t, w in run_relearn(a, b, c):
                    res.violation('%s/%s' % (PROP, t), w,
                                  {'relearn': [a, b, c]}, size=3)
    return res


def _task_many_known(task):
    n, via = task
    res = core.Result()
    res.count('states')
    res.count('transitions', n + 3)
    res.count('evaluations', 3)
    res.count('nontrivial')
    for t, w in run_many_known(n, via):
        res.violation('%s/%s' % (PROP, t), w,
                      {'many_known': [n, via]}, size=n)
    return res


def run(ctx):
    pool = sig_pool(ctx.quick)
    ctx.rule = (
        '(every third definition is introspected on a container-like object '
        'whose truth value is False) interface definitions: every (in, out) pair of a pool of %d '
        'signature sequences (empty, every basic type, containers, nested '
        'dict entries, several arguments) as a method; every pool entry as a '
        'signal, alone and next to a same-named method; every single type x '
        'access {read, write, readwrite} x notification {true, false, '
        'invalidates} as a property; fuller interfaces with %d members of '
        'each kind; the empty interface. Each is exported on an object, the '
        'generated XML is checked with an independent XML parser against the '
        'reference signature splitter, parsed back with replacement, and '
        'compared (sigIn/sigOut/nargs/nret, signals, property type and '
        'access); a proxy over the parsed interfaces must accept exactly the '
        'declared argument count and send the declared signatures. Objects '
        'with 2 and 3 interfaces in every order x every subset registered '
        'locally x replace flag: every interface must come back exactly '
        'once, known ones identical iff no replacement. Definitions built '
        'incrementally: every sequence of 2-4 steps (5 thorough, sampled) '
        'over adding / re-declaring / deleting methods, signals and '
        'properties, with the XML generated and parsed after every step. A '
        'three-level class hierarchy (each level adding an interface) and a '
        'plain DBusObject introspected in all 24 orders. A name learnt from '
        'a peer and then described differently twice, every combination of '
        'replacement flags. A process knowing '
        'many interfaces: 127..8193 (thorough 65537) others declared or '
        'learnt from peers after a local declaration, which must still win '
        'without replacement'
        % (len(pool), 2 if ctx.quick else 3))
    ctx.assumptions = ['the notification mode after parsing is not compared '
                       '(not in the statement)']
    n = ctx.jobs * 2
    ctx.map(_task_single, [(ctx.quick, i, n) for i in range(n)])
    ctx.map(_task_multi, [(ctx.quick, i, n) for i in range(n)])
    ctx.map(_task_incremental, [(ctx.quick, i, n) for i in range(n)])
    ctx.map(_task_hierarchy, [ctx.quick])
    ctx.map(_task_names, [ctx.quick])
    ctx.map(_task_relearn, [0])
    from mcx import scale
    ns = scale.ladder(8193 if ctx.quick else 65537)
    ctx.map(_task_many_known, [(k, 'declared') for k in ns]
            + [(k, 'learnt') for k in ns if k <= 8193])
    ctx.bounds = {'signature_pool': len(pool)}


def replay(data):
    res = core.Result()
    if 'relearn' in data:
        return [('%s/%s' % (PROP, t), w) for t, w in
                run_relearn(*data['relearn'])]
    if 'many_known' in data:
        return [('%s/%s' % (PROP, t), w) for t, w in
                run_many_known(*data['many_known'])]
    if 'hierarchy' in data:
        res = _task_hierarchy(False)
        return [(s, v['what']) for s, v in res.violations.items()]
    if 'incremental' in data:
        res = _task_incremental((False, 0, 1))
        return [(s, v['what']) for s, v in res.violations.items()]
    check_object(res, data['defs'], tuple(data['known']), data['replace'],
                 failed_first=data.get('failed_first', False))
    return [(s, v['what']) for s, v in res.violations.items()]
