"""
C16 - the exported-object tree seen remotely is exactly what was exported.

Explicit-state search over export/unexport histories on a path universe with
parents, children, grandchildren and siblings sharing a textual prefix; after
every step every path (and two outsiders) is queried with real call bytes:
an ordinary call, Introspect and GetManagedObjects.
"""
import xml.etree.ElementTree as ET

from mcx import core, explore, fakes, refcodec as R

PROP = 'C16'
UNIVERSE = ['/', '/a', '/a/b', '/a/bc', '/a/b/c', '/a/b/c/d', '/x']
OUTSIDERS = ['/a/b/cd', '/y/z']
CALLER = ':1.60'


def make_class(falsy=False):
    from txdbus import objects as O, interface as I
    iface = I.DBusInterface(
        'org.ex.T', I.Method('Ping', '', 's'),
        I.Property('Name', 's'), I.Property('Secret', 's', readable=False,
                                            writeable=True),
        I.Property('Count', 'u', writeable=True),
        noRegister=True)

    class T(O.DBusObject):
        dbusInterfaces = [iface]
        Name = O.DBusProperty('Name')
        Secret = O.DBusProperty('Secret')
        Count = O.DBusProperty('Count')

        def __init__(self, path):
            O.DBusObject.__init__(self, path)
            self.Name = path
            self.Secret = 'hidden'
            self.Count = len(path)

        def dbus_Ping(self):
            return self.getObjectPath()

    if falsy:
        # container-like application objects that are empty at the moment
        # (truth value False); exported objects all the same
        class Empty(T):
            def __len__(self):
                return 0
        return Empty
    return T


def children_of(path, exported):
    prefix = path if path.endswith('/') else path + '/'
    out = set()
    for p in exported:
        if p != path and p.startswith(prefix):
            out.add(p[len(prefix):].split('/')[0])
    return out


def beneath(path, exported):
    prefix = path if path.endswith('/') else path + '/'
    return {p for p in exported if p != path and p.startswith(prefix)}


class W:
    pass


class Model:
    """an application object that is not a DBusObject itself but adaptable
    to one (exportObject accepts anything adaptable to IDBusObject)"""

    def __init__(self, path, factory):
        self.path = path
        self.factory = factory


_ADAPTER = []


def _register_adapter():
    if not _ADAPTER:
        from twisted.python import components
        from txdbus import objects as O
        components.registerAdapter(lambda m: m.factory(m.path), Model,
                                   O.IDBusObject)
        _ADAPTER.append(True)


class TreeScenario(explore.Scenario):
    name = 'C16/tree'

    def build(self):
        w = W()
        w.cw = fakes.ClientWorld()
        w.T = make_class(self.params.get('falsy', False))
        w.exported = set()
        w.again = set()      # paths whose object was replaced by another
        w.inst = {}          # path -> the instance kept by the application
        w.broken = set()     # paths where a failing export was attempted
        w.serial = 100
        w.cw.sent()
        return w

    def close(self, w):
        w.cw.close()

    def enabled(self, w):
        evs = []
        if w.broken:
            return evs
        for i, p in enumerate(UNIVERSE):
            if i not in self.params.get('paths', range(len(UNIVERSE))):
                continue
            evs.append(('unexport', i) if p in w.exported
                       else ('export', i))
            if p in w.exported and i in self.params.get('badexport', ()):
                # an export at an occupied path that fails while the
                # announcement is being built (a property of the new object
                # cannot be read)
                evs.append(('badexport', i))
            if p in w.exported and p not in w.again and \
                    i in self.params.get('reexport', ()):
                # another object exported at a path that is occupied
                evs.append(('reexport', i))
        return evs

    def _do(self, w, ev):
        p = UNIVERSE[ev[1]]
        if ev[0] == 'export':
            if self.params.get('adapted'):
                _register_adapter()
                w.cw.conn.exportObject(Model(p, w.T))
            elif self.params.get('reuse'):
                # the application keeps its object and exports the same
                # instance again after having unexported it
                if p not in w.inst:
                    w.inst[p] = w.T(p)
                w.cw.conn.exportObject(w.inst[p])
            else:
                w.cw.conn.exportObject(w.T(p))
            w.exported.add(p)
        elif ev[0] == 'reexport':
            w.cw.conn.exportObject(w.T(p))
            w.again.add(p)
        else:
            w.cw.conn.unexportObject(p)
            w.exported.discard(p)
            w.again.discard(p)
        return p

    def _advance(self, w, ev):
        # the queries are part of the history too (an implementation may
        # cache what it answered): issue them, do not judge them again
        self._do(w, ev)
        w.cw.sent()
        for q in UNIVERSE + OUTSIDERS:
            self._call(w, q, 'org.ex.T', 'Ping')
            self._call(w, q, 'org.freedesktop.DBus.Introspectable',
                       'Introspect')
            self._call(w, q, 'org.freedesktop.DBus.ObjectManager',
                       'GetManagedObjects')

    def _call(self, w, path, iface, member):
        w.serial += 1
        f = {'path': path, 'member': member, 'sender': CALLER,
             'destination': ':1.7'}
        if iface:
            f['interface'] = iface
        w.cw.conn.dataReceived(R.encode_message(R.METHOD_CALL, w.serial, f))
        msgs = w.cw.sent()
        mine = [m for m in msgs
                if m['fields'].get('reply_serial') == w.serial]
        return mine, [m for m in msgs if m not in mine]

    def _bad_export(self, w, ev):
        """no export or unexport call so far implies that the path went
        away: whatever object answers there now, the path is still exported
        and still listed by its parent"""
        p = UNIVERSE[ev[1]]
        o = w.T(p)
        o.Count = 'not-a-number'          # declared 'u'
        try:
            w.cw.conn.exportObject(o)
            raised = False
        except Exception:
            raised = True
        w.broken.add(p)
        w.cw.sent()
        viol = []
        mine, extra = self._call(w, p, 'org.ex.T', 'Ping')
        if len(mine) != 1 or mine[0]['type'] != 2:
            viol.append(('%s/failed-export/call' % PROP,
                         'exported %r; an export of another object at the '
                         'occupied %s %s; afterwards Ping on %s is answered '
                         '%r' % (sorted(w.exported), p, 'raised' if raised
                                 else 'returned', p, [_b(m) for m in mine])))
        parent = p.rsplit('/', 1)[0] or '/'
        if parent != p:
            mine, extra = self._call(
                w, parent, 'org.freedesktop.DBus.Introspectable',
                'Introspect')
            kids = []
            if len(mine) == 1 and mine[0]['type'] == 2:
                xml = mine[0]['body'][0]
                kids = [n.get('name') for n in ET.fromstring(
                    xml[xml.index('<node'):]).findall('node')]
            if p.rsplit('/', 1)[1] not in kids:
                viol.append(('%s/failed-export/parent' % PROP,
                             'after a failed export at the occupied %s its '
                             'parent lists the children %r' % (p, kids)))
        return viol

    def advance(self, w, ev):
        if ev[0] == 'badexport':
            self._bad_export(w, ev)
            return
        self._advance(w, ev)

    def apply(self, w, ev):
        viol = []
        if ev[0] == 'badexport':
            try:
                return self._bad_export(w, ev)
            except Exception as e:
                return [('%s/failed-export/raises-%s'
                         % (PROP, type(e).__name__),
                         'querying after a failed export raised %r' % (e,))]
        try:
            p = self._do(w, ev)
        except Exception as e:
            return [('%s/%s/raises-%s' % (PROP, ev[0], type(e).__name__),
                     '%s(%s) with %r exported raised %r'
                     % (ev[0], UNIVERSE[ev[1]], sorted(w.exported), e))]
        exp = sorted(w.exported)
        # the announcement
        sigs = w.cw.sent()
        member = 'InterfacesAdded' if ev[0] != 'unexport' else \
            'InterfacesRemoved'
        if ev[0] == 'reexport' and len(sigs) == 2 and \
                sigs[0]['fields'].get('member') == 'InterfacesRemoved' and \
                sigs[0]['body'] and sigs[0]['body'][0] == p:
            # saying first that the previous object went is fine
            sigs = sigs[1:]
        ann = [m for m in sigs if m['type'] == 4
               and m['fields'].get('member') == member]
        other = [m for m in sigs if m not in ann]
        ok = len(ann) == 1 and not other and ann[0]['body'] and \
            ann[0]['body'][0] == p and \
            ann[0]['fields'].get('interface') == \
            'org.freedesktop.DBus.ObjectManager'
        if ok:
            second = ann[0]['body_plain'][1]
            names = set(second) if not isinstance(second, dict) \
                else set(second.keys())
            if 'org.ex.T' not in names:
                ok = False
            if ev[0] != 'unexport' and isinstance(second, dict):
                props = second.get('org.ex.T')
                if props != {'Name': p, 'Count': len(p)}:
                    ok = False
        if not ok:
            viol.append(('%s/%s/announcement' % (PROP, ev[0]),
                         '%s(%s): expected exactly one %s naming the path and '
                         'its interfaces, got %r'
                         % (ev[0], p, member,
                            [(m['fields'].get('member'), m['body_plain'])
                             for m in sigs])))
        try:
            for q in UNIVERSE + OUTSIDERS:
                viol.extend(self._query(w, q, exp))
        except Exception as e:
            viol.append(('%s/query/raises-%s' % (PROP, type(e).__name__),
                         'querying with %r exported raised %r' % (exp, e)))
        return viol

    def _query(self, w, q, exp):
        viol = []
        is_exp = q in w.exported
        kids = children_of(q, w.exported)
        rel = 'exported' if is_exp else ('ancestor' if kids else 'absent')
        # 1. ordinary call
        mine, extra = self._call(w, q, 'org.ex.T', 'Ping')
        good = len(mine) == 1 and not extra and (
            (is_exp and mine[0]['type'] == 2 and mine[0]['body'] == [q]) or
            (not is_exp and mine[0]['type'] == 3 and
             mine[0]['fields'].get('error_name') ==
             'org.freedesktop.DBus.Error.UnknownObject'))
        if not good:
            viol.append(('%s/call/%s' % (PROP, rel),
                         'exported %r: Ping on %s answered %r'
                         % (exp, q, [_b(m) for m in mine])))
        # 2. Introspect
        mine, extra = self._call(w, q, 'org.freedesktop.DBus.Introspectable',
                                 'Introspect')
        if len(mine) != 1 or extra:
            viol.append(('%s/introspect/%s/replies' % (PROP, rel),
                         'exported %r: Introspect(%s) got %d replies'
                         % (exp, q, len(mine))))
        elif not is_exp and not kids:
            if mine[0]['type'] != 3:
                viol.append(('%s/introspect/absent/answered' % PROP,
                             'exported %r: %s has neither object nor '
                             'descendants but Introspect answered %r'
                             % (exp, q, _b(mine[0]))))
        else:
            if mine[0]['type'] != 2:
                viol.append(('%s/introspect/%s/error' % (PROP, rel),
                             'exported %r: Introspect(%s) failed: %r'
                             % (exp, q, _b(mine[0]))))
            else:
                xml = mine[0]['body'][0]
                try:
                    body = xml[xml.index('<node'):]
                    root = ET.fromstring(body)
                    got_kids = [n.get('name') for n in root.findall('node')]
                    got_ifaces = {n.get('name')
                                  for n in root.findall('interface')}
                except Exception as e:
                    got_kids, got_ifaces = ['<unparseable: %s>' % e], set()
                if sorted(got_kids) != sorted(kids):
                    viol.append(('%s/introspect/%s/children' % (PROP, rel),
                                 'exported %r: Introspect(%s) lists children '
                                 '%r, expected %r'
                                 % (exp, q, sorted(got_kids), sorted(kids))))
                if is_exp != ('org.ex.T' in got_ifaces):
                    viol.append(('%s/introspect/%s/interfaces' % (PROP, rel),
                                 'exported %r: Introspect(%s) lists '
                                 'interfaces %r' % (exp, q,
                                                    sorted(got_ifaces))))
        # 3. GetManagedObjects
        mine, extra = self._call(w, q, 'org.freedesktop.DBus.ObjectManager',
                                 'GetManagedObjects')
        if len(mine) != 1 or extra:
            viol.append(('%s/managed/%s/replies' % (PROP, rel),
                         'GetManagedObjects(%s): %d replies' % (q, len(mine))))
        elif not is_exp:
            if mine[0]['type'] != 3 or mine[0]['fields'].get('error_name') \
                    != 'org.freedesktop.DBus.Error.UnknownObject':
                viol.append(('%s/managed/%s/not-unknown-object' % (PROP, rel),
                             'exported %r: GetManagedObjects on the '
                             'unexported %s answered %r'
                             % (exp, q, _b(mine[0]))))
        else:
            want = {p: {'Name': p, 'Count': len(p)}
                    for p in beneath(q, w.exported)}
            if mine[0]['type'] != 2:
                viol.append(('%s/managed/error' % PROP,
                             'GetManagedObjects(%s) failed: %r'
                             % (q, _b(mine[0]))))
            else:
                got = mine[0]['body_plain'][0]
                got_t = {p: v.get('org.ex.T') for p, v in got.items()}
                if got_t != want:
                    kind = 'paths' if set(got) != set(want) else 'properties'
                    viol.append(('%s/managed/%s' % (PROP, kind),
                                 'exported %r: GetManagedObjects(%s) reports '
                                 '%r, expected %r' % (exp, q, got_t, want)))
                for p, v in got.items():
                    if 'org.freedesktop.DBus.Properties' not in v:
                        viol.append(('%s/managed/interfaces' % PROP,
                                     'object %s reported without all its '
                                     'interfaces: %r' % (p, sorted(v))))
                        break
        return viol

    def canon(self, w):
        if self.params.get('dedup', True):
            return (tuple(sorted(w.exported)), tuple(sorted(w.again)),
                    tuple(sorted(w.inst)), tuple(sorted(w.broken)))
        return None

    def nontrivial(self, hist):
        return len(hist) > 1


def _b(m):
    return (m['type'], m['fields'].get('error_name'),
            m['body_plain'][:1] if m['body_plain'] else None)


def run_churn(cycles, live, same_path):
    """a long-lived connection: short-lived objects of two classes with
    different interfaces exported beneath a permanent parent, queried, then
    unexported and dropped `live` cycles later.  Announcements,
    introspection and GetManagedObjects name each object's own interfaces
    and properties"""
    import gc
    from txdbus import objects as O, interface as I
    viol = []
    cw = fakes.ClientWorld()
    serial = [5000]

    def call(path, iface, member):
        serial[0] += 1
        cw.conn.dataReceived(R.encode_message(
            R.METHOD_CALL, serial[0],
            {'path': path, 'member': member, 'sender': CALLER,
             'destination': ':1.7', 'interface': iface}))
        return [m for m in cw.sent()
                if m['fields'].get('reply_serial') == serial[0]]
    try:
        cw.sent()
        ifs = {}
        for tag, prop in (('Left', 'Name'), ('Right', 'Title')):
            ifs[tag] = I.DBusInterface(
                'org.ex.' + tag, I.Method('Ping', '', 's'),
                I.Property(prop, 's'), noRegister=True)

        class Left(O.DBusObject):
            dbusInterfaces = [ifs['Left']]
            Name = O.DBusProperty('Name')

            def __init__(self, path):
                O.DBusObject.__init__(self, path)
                self.Name = 'L' + path

        class Right(O.DBusObject):
            dbusInterfaces = [ifs['Right']]
            Title = O.DBusProperty('Title')

            def __len__(self):
                return 0        # container-like and empty

            def __init__(self, path):
                O.DBusObject.__init__(self, path)
                self.Title = 'R' + path
        cw.conn.exportObject(O.DBusObject('/churn'))
        cw.sent()
        alive = {}           # path -> (interface name, properties)
        order = []
        for n in range(cycles):
            path = '/churn/o' if same_path else '/churn/o%d' % n
            left = (n % 2 == 0) if not same_path else (n % 3 != 1)
            obj = (Left if left else Right)(path)
            mine = ('org.ex.Left', {'Name': 'L' + path}) if left else \
                ('org.ex.Right', {'Title': 'R' + path})
            cw.conn.exportObject(obj)
            del obj
            alive[path] = mine
            order.append(path)
            sigs = cw.sent()
            where = 'cycle %d (%d objects live, %s)' % (
                n, len(alive), 'one path' if same_path else
                'a path per object')
            ann = [m for m in sigs if m['type'] == 4 and
                   m['fields'].get('member') == 'InterfacesAdded']
            ok = len(ann) == 1 and len(sigs) == 1 and \
                ann[0]['body'][0] == path and \
                isinstance(ann[0]['body_plain'][1], dict) and \
                ann[0]['body_plain'][1].get(mine[0]) == mine[1] and \
                not any(k.startswith('org.ex.') and k != mine[0]
                        for k in ann[0]['body_plain'][1])
            if not ok:
                viol.append(('churn/announcement/added',
                             '%s: export of a %s object at %s announced %r'
                             % (where, mine[0], path,
                                [(m['fields'].get('member'),
                                  m['body_plain']) for m in sigs])))
                return viol
            r = call(path, 'org.freedesktop.DBus.Introspectable',
                     'Introspect')
            got = set()
            if len(r) == 1 and r[0]['type'] == 2:
                xml = r[0]['body'][0]
                got = {x.get('name') for x in ET.fromstring(
                    xml[xml.index('<node'):]).findall('interface')
                    if x.get('name').startswith('org.ex.')}
            if got != {mine[0]}:
                viol.append(('churn/introspect/interfaces',
                             '%s: Introspect of the %s object at %s lists '
                             'the interfaces %r' % (where, mine[0], path,
                                                    sorted(got))))
                return viol
            r = call('/churn', 'org.freedesktop.DBus.ObjectManager',
                     'GetManagedObjects')
            got = None
            if len(r) == 1 and r[0]['type'] == 2:
                got = {p_: {k: v for k, v in d.items()
                            if k.startswith('org.ex.')}
                       for p_, d in r[0]['body_plain'][0].items()}
            want = {p_: {i: pr} for p_, (i, pr) in alive.items()}
            if got != want:
                bad = sorted(p_ for p_ in set(got or {}) | set(want)
                             if (got or {}).get(p_) != want.get(p_))
                viol.append(('churn/managed',
                             '%s: GetManagedObjects(/churn) differs from '
                             'the exported objects at %r: reported %r, '
                             'exported %r'
                             % (where, bad[:3],
                                [(got or {}).get(b) for b in bad[:3]],
                                [want.get(b) for b in bad[:3]])))
                return viol
            if len(order) > live or same_path:
                gone = order.pop(0)
                gi = alive.pop(gone)
                cw.conn.unexportObject(gone)
                gc.collect()
                sigs = cw.sent()
                ann = [m for m in sigs if m['type'] == 4 and
                       m['fields'].get('member') == 'InterfacesRemoved']
                names = set(ann[0]['body_plain'][1]) if len(ann) == 1 \
                    else set()
                if len(sigs) != 1 or len(ann) != 1 or \
                        ann[0]['body'][0] != gone or \
                        {x for x in names if x.startswith('org.ex.')} \
                        != {gi[0]}:
                    viol.append(('churn/announcement/removed',
                                 '%s: unexport of the %s object at %s '
                                 'announced %r'
                                 % (where, gi[0], gone,
                                    [(m['fields'].get('member'),
                                      m['body_plain']) for m in sigs])))
                    return viol
    except Exception as e:
        viol.append(('churn/raises-%s' % type(e).__name__,
                     'export / query / unexport cycles: %r' % (e,)))
    finally:
        cw.close()
    return viol


def run_lazy(n):
    """n devices beneath /svc/dev, each with a read-only property (an
    application subclass of DBusProperty with a computed value) naming a
    session object that is created and exported, beneath /svc/sessions, the
    first time the property is read.  GetManagedObjects on /svc/dev reads
    the properties - and reports exactly the devices; afterwards the tree is
    what the export calls imply"""
    from txdbus import objects as O, interface as I
    viol = []
    cw = fakes.ClientWorld()
    serial = [7000]

    def call(path, iface, member):
        serial[0] += 1
        cw.conn.dataReceived(R.encode_message(
            R.METHOD_CALL, serial[0],
            {'path': path, 'member': member, 'sender': CALLER,
             'destination': ':1.7', 'interface': iface}))
        msgs = cw.sent()
        return [m for m in msgs
                if m['fields'].get('reply_serial') == serial[0]], \
            [m for m in msgs if m['type'] == 4]
    try:
        cw.sent()

        class Computed(O.DBusProperty):
            def __init__(self, name, fn, interface=None):
                O.DBusProperty.__init__(self, name, interface)
                self.fn = fn

            def __get__(self, instance, owner):
                if instance is None:
                    return self
                return self.fn(instance)
        sess_if = I.DBusInterface('org.ex.Session', I.Method('Close', '', ''),
                                  noRegister=True)
        dev_if = I.DBusInterface('org.ex.Device', I.Method('Poke', '', 's'),
                                 I.Property('Session', 'o'), noRegister=True)

        class Session(O.DBusObject):
            dbusInterfaces = [sess_if]

        class Device(O.DBusObject):
            dbusInterfaces = [dev_if]

            def __init__(self, k):
                O.DBusObject.__init__(self, '/svc/dev/d%d' % k)
                self.k = k
                self.session = None

            def _session(self):
                if self.session is None:
                    self.session = Session('/svc/sessions/s%d' % self.k)
                    cw.conn.exportObject(self.session)
                return self.session.getObjectPath()
            Session = Computed('Session', _session, 'org.ex.Device')
        for path in ('/svc', '/svc/dev', '/svc/sessions'):
            cw.conn.exportObject(O.DBusObject(path))
        devs = [Device(k) for k in range(n)]
        for d in devs:
            cw.conn.exportObject(d)
        added = [m['body'][0] for m in cw.sent() if m['type'] == 4 and
                 m['fields'].get('member') == 'InterfacesAdded']
        # exporting a device reads its properties for the announcement, so
        # the sessions came into being there; the application closes them
        # all again (unexport, forget): the next read of the property - the
        # query below - brings each back
        for d in devs:
            if d.session is not None:
                cw.conn.unexportObject(d.session.getObjectPath())
                d.session = None
        cw.sent()
        mine, sigs = call('/svc/dev', 'org.freedesktop.DBus.ObjectManager',
                          'GetManagedObjects')
        want = {'/svc/dev/d%d' % k: {'Session': '/svc/sessions/s%d' % k}
                for k in range(n)}
        got = None
        if len(mine) == 1 and mine[0]['type'] == 2:
            got = {p_: v.get('org.ex.Device')
                   for p_, v in mine[0]['body_plain'][0].items()}
        if got != want:
            viol.append(('lazy/managed',
                         'GetManagedObjects(/svc/dev) with %d devices whose '
                         'Session property exports a session object when '
                         'first read: answered %r, expected %r'
                         % (n, got if got is not None else
                            [_b(m) for m in mine], want)))
        mine, sigs = call('/svc', 'org.freedesktop.DBus.ObjectManager',
                          'GetManagedObjects')
        want_paths = {'/svc/dev', '/svc/sessions'} | set(want) | \
            {'/svc/sessions/s%d' % k for k in range(n)}
        got_paths = set(mine[0]['body_plain'][0]) if len(mine) == 1 and \
            mine[0]['type'] == 2 else None
        if got_paths != want_paths:
            viol.append(('lazy/tree',
                         'afterwards GetManagedObjects(/svc) lists %r, '
                         'exported are %r' % (got_paths and sorted(got_paths),
                                              sorted(want_paths))))
        for k in range(n):
            mine, sigs = call('/svc/sessions/s%d' % k,
                              'org.freedesktop.DBus.Introspectable',
                              'Introspect')
            if len(mine) != 1 or mine[0]['type'] != 2:
                viol.append(('lazy/session-unreachable',
                             'the session object of device %d does not '
                             'answer Introspect: %r' % (k, [_b(m)
                                                            for m in mine])))
                break
    except Exception as e:
        viol.append(('lazy/raises-%s' % type(e).__name__, '%r' % (e,)))
    finally:
        cw.close()
    return viol


def run_shared_names(order):
    """two interfaces of one object declare a property of the same name with
    different access; each descriptor names its interface.  The
    announcement and GetManagedObjects list, per interface, exactly its
    readable properties"""
    from txdbus import objects as O, interface as I
    viol = []
    cw = fakes.ClientWorld()
    try:
        cw.sent()
        ctl = I.DBusInterface(
            'org.ex.Control', I.Property('Level', 'u', readable=False,
                                         writeable=True),
            I.Property('Mode', 's', writeable=True), noRegister=True)
        stat = I.DBusInterface(
            'org.ex.Status', I.Property('Level', 'u'),
            I.Property('Mode', 's', readable=False, writeable=True),
            I.Property('Name', 's'), noRegister=True)
        ifs = [ctl, stat] if order == 'control-first' else [stat, ctl]

        class Dev(O.DBusObject):
            dbusInterfaces = ifs
            ctl_level = O.DBusProperty('Level', interface='org.ex.Control')
            stat_level = O.DBusProperty('Level', interface='org.ex.Status')
            ctl_mode = O.DBusProperty('Mode', interface='org.ex.Control')
            stat_mode = O.DBusProperty('Mode', interface='org.ex.Status')
            name = O.DBusProperty('Name')
        cw.conn.exportObject(O.DBusObject('/sn'))
        d = Dev('/sn/dev')
        d.ctl_level, d.stat_level = 7, 3
        d.ctl_mode, d.stat_mode = 'auto', 'hidden'
        d.name = 'cpu'
        cw.sent()
        cw.conn.exportObject(d)
        sigs = [m for m in cw.sent() if m['type'] == 4 and
                m['fields'].get('member') == 'InterfacesAdded']
        want = {'org.ex.Control': {'Mode': 'auto'},
                'org.ex.Status': {'Level': 3, 'Name': 'cpu'}}
        got = None
        if len(sigs) == 1:
            got = {k: v for k, v in sigs[0]['body_plain'][1].items()
                   if k.startswith('org.ex.')}
        if got != want:
            viol.append(('shared-names/announcement',
                         'interfaces declared %s: InterfacesAdded lists %r, '
                         'the readable properties are %r'
                         % (order, got, want)))
        cw.conn.dataReceived(R.encode_message(
            R.METHOD_CALL, 9100,
            {'path': '/sn', 'member': 'GetManagedObjects', 'sender': CALLER,
             'destination': ':1.7',
             'interface': 'org.freedesktop.DBus.ObjectManager'}))
        mine = [m for m in cw.sent()
                if m['fields'].get('reply_serial') == 9100]
        got = None
        if len(mine) == 1 and mine[0]['type'] == 2:
            got = {k: v for k, v in mine[0]['body_plain'][0].get(
                '/sn/dev', {}).items() if k.startswith('org.ex.')}
        if got != want:
            viol.append(('shared-names/managed',
                         'interfaces declared %s: GetManagedObjects reports '
                         '%r, the readable properties are %r'
                         % (order, got, want)))
    except Exception as e:
        viol.append(('shared-names/raises-%s' % type(e).__name__,
                     '%r' % (e,)))
    finally:
        cw.close()
    return viol


TRICKY = ['/ab', '/ab/bc', '/ab/a', '/ab/ab', '/ab/bc/c', '/srv/a/s',
          '/srv/a/v1', '/a/a']


def run_names(mask):
    """paths whose child names begin with characters that occur in the
    parent path (/a/a, /ab/bc, /srv/a/v1): for one subset of them exported,
    every path and every ancestor is introspected and the child names
    compared with the set-theoretic reference"""
    from txdbus import objects as O
    viol = []
    cw = fakes.ClientWorld()
    try:
        cw.sent()
        exported = [p for i, p in enumerate(TRICKY) if mask >> i & 1]
        for p_ in exported:
            cw.conn.exportObject(O.DBusObject(p_))
        cw.sent()
        queries = set(TRICKY) | {'/', '/srv', '/srv/a', '/a'}
        serial = 8000
        for q in sorted(queries):
            serial += 1
            cw.conn.dataReceived(R.encode_message(
                R.METHOD_CALL, serial,
                {'path': q, 'member': 'Introspect', 'sender': CALLER,
                 'destination': ':1.7',
                 'interface': 'org.freedesktop.DBus.Introspectable'}))
            mine = [m for m in cw.sent()
                    if m['fields'].get('reply_serial') == serial]
            kids = children_of(q, exported)
            if q not in exported and not kids:
                ok = len(mine) == 1 and mine[0]['type'] == 3
                got = [_b(m) for m in mine]
            else:
                got = None
                if len(mine) == 1 and mine[0]['type'] == 2:
                    xml = mine[0]['body'][0]
                    got = sorted(n.get('name') for n in ET.fromstring(
                        xml[xml.index('<node'):]).findall('node'))
                ok = got == sorted(kids)
            if not ok:
                viol.append(('names/children',
                             'exported %r: Introspect(%s) lists %r, the '
                             'immediate children are %r'
                             % (exported, q, got, sorted(kids))))
                break
    except Exception as e:
        viol.append(('names/raises-%s' % type(e).__name__, '%r' % (e,)))
    finally:
        cw.close()
    return viol


CHURN = [(60, 0, True), (200, 0, False), (300, 7, False), (400, 40, False)]


def _task_churn(args):
    res = core.Result()
    if args[0] == 'shared-names':
        res.count('states')
        res.count('transitions', 2)
        res.count('evaluations', 2)
        res.count('nontrivial')
        for t, w in run_shared_names(args[1]):
            res.violation('%s/%s' % (PROP, t), w,
                          {'part': 'shared-names', 'order': args[1]}, size=1)
        return res
    if args[0] == 'names':
        for mask in range(args[1], 1 << len(TRICKY), args[2]):
            res.count('states')
            res.count('transitions', 12)
            res.count('evaluations', 12)
            res.count('nontrivial')
            for t, w in run_names(mask):
                res.violation('%s/%s' % (PROP, t), w,
                              {'part': 'names', 'mask': mask}, size=bin(
                                  mask).count('1'))
        return res
    if args[0] == 'lazy':
        res.count('states')
        res.count('transitions', args[1] + 3)
        res.count('evaluations', 3)
        res.count('nontrivial')
        for t, w in run_lazy(args[1]):
            res.violation('%s/%s' % (PROP, t), w, {'part': 'lazy',
                                                   'n': args[1]}, size=1)
        return res
    res.count('states', args[0])
    res.count('transitions', args[0] * 4)
    res.count('evaluations', args[0] * 3)
    res.count('nontrivial', args[0])
    for t, w in run_churn(*args):
        res.violation('%s/%s' % (PROP, t), w, {'part': 'churn',
                                               'args': list(args)},
                      size=args[0])
    return res


def run(ctx):
    ctx.rule = (
        'breadth-first search over export(p)/unexport(p) for p in %r, '
        'deduplicated on the set of exported paths (all 128 sets are '
        'reached), plus a pass without deduplication to history length %d '
        '(the same set reached by different histories must answer '
        'identically). After every event each of the 7 paths and 2 outsiders '
        'is queried with real call bytes: Ping (return iff exported, else '
        'UnknownObject), Introspect (exactly the immediate child names; '
        'error iff neither object nor descendants; the object\'s interfaces '
        'iff exported) and GetManagedObjects (exactly the exported paths '
        'strictly beneath, each with its interfaces and readable properties; '
        'UnknownObject when unexported); each event must emit exactly one '
        'InterfacesAdded / InterfacesRemoved for that path. A second pass '
        'adds the event "export another object at an occupied path", a '
        'third exports the same instance again after it was unexported; '
        'one pass uses container-like objects whose truth value is False; '
        'every subset of 8 paths whose child names begin with characters of '
        'the parent path, every path and ancestor introspected; '
        '1 / 2 / 5 devices whose computed property exports a further object '
        'when GetManagedObjects first reads it. '
        'Long-lived connection: 60..400 cycles of export / query / unexport '
        'of short-lived objects of two classes (different interfaces and '
        'properties) beneath a permanent parent, 0, 7 or 40 live at a time'
        % (UNIVERSE, 3 if ctx.quick else 5))
    ctx.assumptions = ['unexport is only called for an exported path; an '
                       'export at an occupied path (a different object) '
                       'leaves the path exported and announces the object '
                       '(an InterfacesRemoved for the previous one first is '
                       'accepted); which of the two objects then answers is '
                       'not judged']
    explore.explore(ctx, TreeScenario, {'dedup': True}, max_depth=20,
                    label='deduplicated on the exported set')
    explore.explore(ctx, TreeScenario,
                    {'dedup': True, 'reexport': (1, 2, 4) if ctx.quick
                     else tuple(range(7))}, max_depth=30,
                    label='with a second object exported at an occupied path')
    explore.explore(ctx, TreeScenario,
                    {'dedup': True, 'reuse': True,
                     'paths': (1, 2, 3, 4) if ctx.quick else (0, 1, 2, 3, 4, 6)},
                    max_depth=30,
                    label='the same instances exported again after unexport')
    explore.explore(ctx, TreeScenario,
                    {'dedup': True, 'falsy': True,
                     'paths': (0, 1, 2, 4) if ctx.quick else tuple(range(7))},
                    max_depth=30,
                    label='exported objects whose truth value is False')
    explore.explore(ctx, TreeScenario,
                    {'dedup': True, 'paths': (1, 2, 4), 'adapted': True},
                    max_depth=30,
                    label='objects exported through an IDBusObject adapter')
    explore.explore(ctx, TreeScenario,
                    {'dedup': True, 'paths': (1, 2, 3, 4),
                     'badexport': (1, 2, 4)}, max_depth=30,
                    label='an export at an occupied path that fails')
    explore.explore(ctx, TreeScenario,
                    {'dedup': False, 'reexport': tuple(range(7))},
                    max_depth=3 if ctx.quick else 5,
                    label='all histories, no deduplication')
    ctx.map(_task_churn, CHURN + [('lazy', 1), ('lazy', 2), ('lazy', 5)]
            + [('names', i, 16) for i in range(16)]
            + [('shared-names', 'control-first'),
               ('shared-names', 'status-first')])
    ctx.bounds = {'paths': len(UNIVERSE)}


def replay(data):
    if data.get('part') == 'shared-names':
        return [('%s/%s' % (PROP, t), w) for t, w in
                run_shared_names(data['order'])]
    if data.get('part') == 'names':
        return [('%s/%s' % (PROP, t), w) for t, w in run_names(data['mask'])]
    if data.get('part') == 'lazy':
        return [('%s/%s' % (PROP, t), w) for t, w in run_lazy(data['n'])]
    if data.get('part') == 'churn':
        return [('%s/%s' % (PROP, t), w) for t, w in
                run_churn(*data['args'])]
    return explore.replay_violation(data)
