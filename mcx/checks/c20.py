"""
C20 - file descriptors stay attached to the message that carried them.

Sender: every sequence of <= 3 calls over descriptor-carrying bodies; the
transport log must show each message's descriptors, in argument order, ahead
of its bytes, and the header must declare their count.

Receiver: the same sequences (reference-encoded) delivered as two ordered
event streams - descriptor arrivals and read chunks - in every interleaving a
stream socket allows, under every single cut (pairs near boundaries when
thorough).
"""
import itertools

from mcx import core, fakes, space, refcodec as R
from mcx.checks import c04

PROP = 'C20'

# (signature, builder(fds iterator) -> reference values, number of fds)
BODIES = [
    ('', lambda f: [], 0),
    ('h', lambda f: [next(f)], 1),
    ('hh', lambda f: [next(f), next(f)], 2),
    ('shs', lambda f: ['a', next(f), 'b'], 1),
    ('ah', lambda f: [[]], 0),
    ('ah', lambda f: [[next(f), next(f)]], 2),
    ('ah', lambda f: [[next(f), next(f), next(f)]], 3),
    ('(hs)h', lambda f: [[next(f), 'x'], next(f)], 2),
    ('s', lambda f: ['plain'], 0),
    # one descriptor passed for two arguments (one log file for stdout and
    # stderr): it travels twice, once per argument
    ('hh', lambda f: (lambda x: [x, x])(next(f)), 2),
    ('ah', lambda f: (lambda x, y: [[x, y, x]])(next(f), next(f)), 3),
]
# descriptors inside variants: txdbus has no wrapper type with which a
# sender could say "this variant holds a descriptor", but peers written with
# other libraries send them (an 'h' in an a{sv} options dictionary is
# common), so these are received only
NSEND = len(BODIES)
BODIES += [
    ('v', lambda f: [R.Var('h', next(f))], 1),
    ('a{sv}h', lambda f: [[['k', R.Var('h', next(f))],
                           ['n', R.Var('s', 'x')]], next(f)], 2),
    ('hav', lambda f: [next(f), [R.Var('h', next(f)),
                                 R.Var('(sh)', ['y', next(f)])]], 3),
    # descriptors attached and declared but not referenced by the body (the
    # count in the header is independent of the body; GDBus lets an
    # application attach a descriptor list to any message)
    ('', lambda f: [], 2, 2),
    ('s', lambda f: ['plain'], 1, 1),
    ('hs', lambda f: [next(f), 'x'], 2, 1),
]


def _fd_values(sig, vals):
    """descriptors in argument order"""
    out = []

    def walk(t, v):
        c, ch = t
        if c == 'h':
            out.append(v)
        elif c == 'a':
            for x in v:
                walk(ch[0], x)
        elif c in '({':
            for ft, fv in zip(ch, v):
                walk(ft, fv)
        elif c == 'v':
            walk(R.single_type(v.sig), v.value)
    for t, v in zip(R.parse_sig(sig), vals):
        walk(t, v)
    return out


def _mk(idxs):
    """[(sig, values, fds)] with globally distinct descriptor numbers"""
    counter = itertools.count(10)
    out = []
    for i in idxs:
        sig, b, n = BODIES[i][:3]
        vals = b(counter)
        unreferenced = BODIES[i][3] if len(BODIES[i]) > 3 else 0
        out.append((sig, vals, _fd_values(sig, vals)
                    + [next(counter) for _ in range(unreferenced)]))
    return out


# ---------------------------------------------------------------------------
# sender

def sender_case(idxs, noreply=()):
    """noreply: positions of the calls made with expectReply=False"""
    cw = fakes.ClientWorld(unix=True)
    try:
        start = len(cw.transport.log)
        msgs = _mk(idxs)
        try:
            for k_, (sig, vals, fds) in enumerate(msgs):
                kw = {}
                if k_ in noreply:
                    kw['expectReply'] = False
                    if k_ % 2:
                        kw['timeout'] = 5
                cw.conn.callRemote('/p', 'M', interface='a.b',
                                   destination='c.d',
                                   signature=sig or None,
                                   body=vals if sig else None, **kw)
        except Exception as e:
            return [('sender-raises-%s' % type(e).__name__,
                     'callRemote raised %r' % (e,))]
        log = cw.transport.log[start:]
        # group: descriptors seen since the previous write belong to the
        # next write
        groups, cur = [], []
        for e in log:
            if e[0] == 'fd':
                cur.append(e[1])
            elif e[0] == 'w':
                groups.append((cur, e[1]))
                cur = []
        if cur:
            return [('fd-after-bytes', 'descriptors %r sent after the last '
                     'message bytes' % (cur,))]
        if len(groups) != len(msgs):
            return [('sender-writes', '%d writes for %d messages'
                     % (len(groups), len(msgs)))]
        for k, ((sent, raw), (sig, vals, fds)) in enumerate(zip(groups,
                                                                msgs)):
            if sent != fds:
                return [('attached', 'message %d (%r): descriptors sent '
                         'ahead of it %r, its arguments hold %r'
                         % (k, sig, sent, fds))]
            try:
                p = R.parse_message(raw, fds=sent)
            except R.RefError as e:
                return [('sender-wire', 'message %d (%r) is malformed: %s'
                         % (k, sig, e))]
            declared = p['fields'].get('unix_fds', 0)
            if declared != len(fds):
                return [('declared-count', 'message %d (%r) declares %d '
                         'descriptors, carries %d'
                         % (k, sig, declared, len(fds)))]
            if p['body'] != vals:
                return [('sender-index', 'message %d (%r): body resolves to '
                         '%r, sent %r' % (k, sig, p['body'], vals))]
        return []
    finally:
        cw.close()


def refusable_sends():
    """descriptors where the library has no way (or may have none) to take
    them along: inside a variant of a call, in a return value, in a signal.
    Either the operation is refused (an exception, a failed Deferred, an
    error reply - and then no message naming a descriptor is written), or
    what is written is right: as many descriptors handed to the transport
    ahead of the message as its header declares, the body's indexes
    resolving to them"""
    from twisted.internet import defer
    from txdbus import objects as O, interface as I
    viol = []

    class FD(int):
        dbusSignature = 'h'

    def judge(tag, log, what):
        groups, cur = [], []
        for e in log:
            if e[0] == 'fd':
                cur.append(e[1])
            elif e[0] == 'w':
                groups.append((cur, e[1]))
                cur = []
        if cur:
            viol.append(('refusable/%s/fd-after-bytes' % tag,
                         '%s: descriptors %r sent after the last bytes'
                         % (what, cur)))
        for sent, raw in groups:
            for one in R.split_stream(raw):
                try:
                    p = R.parse_message(one, fds=sent)
                except R.RefError as e:
                    viol.append(('refusable/%s/dangling' % tag,
                                 '%s: wrote a message that does not hold '
                                 'together with the %d descriptor(s) sent '
                                 'ahead of it: %s' % (what, len(sent), e)))
                    continue
                if p['fields'].get('unix_fds', 0) != len(sent) and \
                        ('h' in (p['fields'].get('signature') or '')
                         or sent):
                    viol.append(('refusable/%s/declared-count' % tag,
                                 '%s: the message declares %r descriptors, '
                                 '%d were handed over'
                                 % (what, p['fields'].get('unix_fds', 0),
                                    len(sent))))
    cases = [('variant', 'v', [FD(6)]), ('hv', 'hv', [4, FD(6)]),
             ('a{sv}', 'a{sv}', [{'out': FD(7)}]),
             ('av', 'hav', [3, [FD(8), 'x']])]
    for tag, sig, body in cases:
        cw = fakes.ClientWorld(unix=True)
        try:
            start = len(cw.transport.log)
            try:
                d = cw.conn.callRemote('/p', 'M', interface='a.b',
                                       destination='c.d', signature=sig,
                                       body=body)
                if isinstance(d, defer.Deferred):
                    d.addErrback(lambda f: None)
            except Exception:
                pass
            judge('call-' + tag, cw.transport.log[start:],
                  'callRemote with signature %r and a descriptor inside a '
                  'variant' % sig)
        finally:
            cw.close()
    # a method declared to return a descriptor, a signal carrying one
    for kind in ('return', 'return-later', 'signal'):
        cw = fakes.ClientWorld(unix=True)
        try:
            ifc = I.DBusInterface('org.ex.Fd', I.Method('Open', 's', 'h'),
                                  I.Method('Pair', '', 'hs'),
                                  I.Signal('Ready', 'h'), noRegister=True)
            held = []

            class Obj(O.DBusObject):
                dbusInterfaces = [ifc]

                def dbus_Open(self, name):
                    if kind == 'return-later':
                        d = defer.Deferred()
                        held.append(d)
                        return d
                    return 9

                def dbus_Pair(self):
                    return (5, 'x')
            o = Obj('/fd')
            cw.conn.exportObject(o)
            cw.transport.take()
            start = len(cw.transport.log)
            try:
                if kind == 'signal':
                    o.emitSignal('Ready', 11)
                else:
                    cw.conn.dataReceived(R.encode_message(
                        1, 77, {'path': '/fd', 'member': 'Open',
                                'interface': 'org.ex.Fd',
                                'sender': ':1.9', 'destination': ':1.7'},
                        's', ['n']))
                    for d in held:
                        d.callback(12)
                    cw.conn.dataReceived(R.encode_message(
                        1, 78, {'path': '/fd', 'member': 'Pair',
                                'interface': 'org.ex.Fd',
                                'sender': ':1.9', 'destination': ':1.7'}))
            except Exception:
                pass
            judge(kind, cw.transport.log[start:],
                  {'signal': 'emitSignal with a descriptor argument',
                   'return': 'a method returning a descriptor',
                   'return-later': 'a method whose Deferred fires with a '
                                   'descriptor'}[kind])
        finally:
            cw.close()
    return viol


# ---------------------------------------------------------------------------
# receiver

def _fields(mtype, nfds):
    f = {1: {'path': '/p', 'member': 'M'},
         2: {'reply_serial': 5},
         3: {'reply_serial': 6, 'error_name': 'a.b.E'},
         4: {'path': '/p', 'member': 'S', 'interface': 'a.b'}}[mtype]
    f = dict(f)
    if nfds:
        f['unix_fds'] = nfds
    return f


def type_pattern(n, variant):
    """message types of a stream: variant 0 = all method calls; others mix in
    returns, signals and errors (a peer may attach descriptors to any of
    them)"""
    if variant == 0:
        return (1,) * n
    order = [2, 4, 3, 1]
    return tuple(order[(k + variant - 1) % 4] for k in range(n))


def receiver_case(idxs, cuts, order, little, types=None, early=0,
                  joined=False, nested_at=None):
    """order: sequence of 'F' / 'C' saying which stream's next event comes;
    early: that many descriptors arrive before the read that completes the
    handshake (a client that writes BEGIN and its first message in one go);
    joined: the end of the handshake and the first message bytes share a
    read; nested_at: the handler of message number nested_at takes delivery
    of everything that is still to come (descriptors and reads, in order)
    before it returns - what happens when a handler talks to its peer over
    an in-memory transport"""
    msgs = _mk(idxs)
    types = types or (1,) * len(msgs)
    raws = []
    for k, (sig, vals, fds) in enumerate(msgs):
        raws.append(R.encode_message(types[k], 50 + k,
                                     _fields(types[k], len(fds)), sig, vals,
                                     little=little, fds=[]))
    # probe at the end: one more descriptor message
    raws.append(R.encode_message(1, 99, {'path': '/p', 'member': 'Probe',
                                         'unix_fds': 1}, 'h', [777],
                                 little=little, fds=[]))
    stream = b''.join(raws[:-1])
    p, t = c04.make_server()
    chunks = [c for c in space.chunks(stream, cuts) if c]
    allfds = [fd for (_, _, fds) in msgs for fd in fds]
    fi = ci = 0
    order = list(order)
    try:
        if early or joined:
            # the first byte and line of the handshake on their own, the
            # descriptors, then BEGIN (alone or with message bytes behind it)
            p.dataReceived(c04.SERVER_HS[:-7])
            for _ in range(early):
                p.fileDescriptorReceived(allfds[fi])
                fi += 1
                order.remove('F')
            if joined and chunks:
                chunks[0] = c04.SERVER_HS[-7:] + chunks[0]
            else:
                p.dataReceived(c04.SERVER_HS[-7:])
        else:
            p.dataReceived(c04.SERVER_HS)
        events = []
        for o in order:
            if o == 'F':
                events.append(('F', allfds[fi]))
                fi += 1
            else:
                events.append(('C', chunks[ci]))
                ci += 1
        events.append(('F', 777))
        events.append(('C', raws[-1]))
        pos = [0]

        def pump():
            while pos[0] < len(events):
                kind, x = events[pos[0]]
                pos[0] += 1
                if kind == 'F':
                    p.fileDescriptorReceived(x)
                else:
                    p.dataReceived(x)
        if nested_at is not None:
            def hook(proto):
                if len(proto.got) == nested_at + 1:
                    pump()
            p.hook = hook
        pump()
    except Exception as e:
        return [('receiver-raises-%s' % type(e).__name__,
                 'raised %r' % (e,))]
    if len(p.got) != len(msgs) + 1:
        return [('receiver-count', 'delivered %d of %d messages'
                 % (len(p.got), len(msgs) + 1))]
    for k, (m, (sig, vals, fds)) in enumerate(zip(p.got, msgs)):
        want = R.as_plain(R.parse_sig(sig), vals) if sig else None
        got = getattr(m, 'body', None)
        if sig and got != want:
            return [('misattributed', 'message %d (%r): descriptor arguments '
                     'resolved to %r, attached were %r' % (k, sig, got, want))]
    if p.got[-1].body != [777]:
        return [('leftover', 'after %r the queue was not exactly consumed: a '
                 'following message resolved its descriptor to %r'
                 % ([BODIES[i][0] for i in idxs], p.got[-1].body))]
    return []


def _orders(msgs, chunk_ends, nchunks):
    """All merges of F-events and C-events such that every descriptor of
    message j arrives before the chunk holding the last byte of message j.
    chunk_ends[j] = index of the chunk containing message j's last byte."""
    # deadline[f] = chunk index before which descriptor f must have arrived
    deadline = []
    for j, (_, _, fds) in enumerate(msgs):
        deadline += [chunk_ends[j]] * len(fds)
    nf = len(deadline)

    def rec(fi, ci, acc):
        if fi == nf and ci == nchunks:
            yield tuple(acc)
            return
        if fi < nf:
            acc.append('F')
            yield from rec(fi + 1, ci, acc)
            acc.pop()
        if ci < nchunks:
            # chunk ci may be delivered only if every descriptor whose
            # deadline is ci has arrived
            if all(d > ci for d in deadline[fi:]) or fi == nf:
                acc.append('C')
                yield from rec(fi, ci + 1, acc)
                acc.pop()
    return rec(0, 0, [])


def _explore_stream(res, si, idxs, quick, variant):
    """every cut set x every admissible arrival order for one stream"""
    little = si % 2 == 0
    msgs = _mk(idxs)
    types = type_pattern(len(idxs), variant)
    lens = []
    for k, (sig, vals, fds) in enumerate(msgs):
        lens.append(len(R.encode_message(
            types[k], 50 + k, _fields(types[k], len(fds)), sig, vals,
            little=little, fds=[])))
    total = sum(lens)
    ends = list(itertools.accumulate(lens))
    cutsets = [()]
    if len(idxs) <= 2:
        cutsets += [(c,) for c in range(1, total)]
    else:
        cutsets += [(c,) for c in range(1, total)
                    if any(abs(c - e) <= 2 for e in ends[:-1])]
    if not quick and len(idxs) == 2:
        near = [c for c in range(1, total)
                if any(abs(c - e) <= 4 for e in ends[:-1])
                or c <= 17 or 0 <= c - ends[0] <= 17]
        cutsets += list(itertools.combinations(near, 2))
    n_exec = 0
    order = ()
    for cuts in cutsets:
        bounds = list(cuts) + [total]
        chunk_ends = []
        for e in ends:
            chunk_ends.append(next(i for i, b in enumerate(bounds)
                                   if e <= b))
        for order in _orders(msgs, chunk_ends, len(bounds)):
            found = receiver_case(idxs, cuts, order, little, types)
            n_exec += 1
            if found:
                for tag, what in found:
                    res.violation(
                        '%s/receiver/%s%s' % (PROP, tag, '' if variant == 0
                                              else '/mixed-types'),
                        'messages %r (types %r), cuts %r, arrival order %s: '
                        '%s' % ([BODIES[i][0] for i in idxs], list(types),
                                list(cuts), ''.join(order), what),
                        {'part': 'recv', 'idxs': list(idxs),
                         'cuts': list(cuts), 'order': ''.join(order),
                         'little': little, 'types': list(types)},
                        size=len(idxs) * 100 + len(order) + variant)
            if 'F' in order and order.index('F') > 0:
                res.count('nontrivial')
            res.outcome(''.join(order))
    # nested delivery: the handler of message j takes delivery of everything
    # still to come before it returns (no cut, and a cut in the middle of
    # the last message)
    if len(idxs) >= 2:
        for cuts in ((), (total - lens[-1] // 2,)):
            bounds = list(cuts) + [total]
            chunk_ends = [next(i for i, b in enumerate(bounds) if e <= b)
                          for e in ends]
            for order in _orders(msgs, chunk_ends, len(bounds)):
                for j in range(len(idxs) - 1):
                    found = receiver_case(idxs, cuts, order, little, types,
                                          nested_at=j)
                    n_exec += 1
                    res.count('nontrivial')
                    for tag, what in found:
                        res.violation(
                            '%s/receiver/nested/%s' % (PROP, tag),
                            'messages %r (types %r), cuts %r, arrival order '
                            '%s, everything behind message %d delivered '
                            'from inside its handler: %s'
                            % ([BODIES[i][0] for i in idxs], list(types),
                               list(cuts), ''.join(order), j, what),
                            {'part': 'recv', 'idxs': list(idxs),
                             'cuts': list(cuts), 'order': ''.join(order),
                             'little': little, 'types': list(types),
                             'nested_at': j},
                            size=len(idxs) * 100 + len(order))
    # descriptors that arrive before the handshake is complete (the client
    # wrote BEGIN and its first messages in one go)
    nf = sum(len(f) for (_, _, f) in msgs)
    first = len(msgs[0][2]) if msgs else 0
    for early in sorted({1, first, nf} - {0}):
        if early > nf:
            continue
        for joined in (False, True):
            for cuts in ((), (lens[0] // 2,)) if lens and lens[0] > 2 \
                    else ((),):
                bounds = list(cuts) + [total]
                chunk_ends = [next(i for i, b in enumerate(bounds)
                                   if e <= b) for e in ends]
                for order in _orders(msgs, chunk_ends, len(bounds)):
                    if list(order[:early]) != ['F'] * early:
                        continue
                    found = receiver_case(idxs, cuts, order, little, types,
                                          early=early, joined=joined)
                    n_exec += 1
                    res.count('nontrivial')
                    for tag, what in found:
                        res.violation(
                            '%s/receiver/early-descriptors/%s'
                            % (PROP, tag),
                            'messages %r (types %r), cuts %r, %d '
                            'descriptor(s) arriving before BEGIN%s, then %s: '
                            '%s' % ([BODIES[i][0] for i in idxs],
                                    list(types), list(cuts), early,
                                    ' (BEGIN in one read with the first '
                                    'message bytes)' if joined else '',
                                    ''.join(order), what),
                            {'part': 'recv', 'idxs': list(idxs),
                             'cuts': list(cuts), 'order': ''.join(order),
                             'little': little, 'types': list(types),
                             'early': early, 'joined': joined},
                            size=len(idxs) * 100 + len(order))
    res.count('states')
    if si % 40 == 0:
        res.sample({'bodies': [BODIES[i][0] for i in idxs],
                    'types': list(types), 'cut_sets': len(cutsets),
                    'example_order': ''.join(order)})
    return n_exec


def _task_recv(task):
    quick, part, nparts = task
    res = core.Result()
    nb = len(BODIES)
    streams = [(i,) for i in range(nb)] + \
        list(itertools.product(range(nb), repeat=2)) + \
        [t for t in itertools.product(range(NSEND), repeat=3)
         if sum(BODIES[i][2] for i in t) >= 2
         and (not quick or (t[0] + 3 * t[1] + 5 * t[2]) % 4 == 0)]
    n_exec = 0
    for si, idxs in enumerate(streams):
        if si % nparts != part:
            continue
        has_fds = any(BODIES[i][2] for i in idxs)
        # all method calls; and (when descriptors are involved) a stream in
        # which returns, signals and errors carry them too
        variants = (0, 1 + si % 4) if has_fds else (0,)
        if not quick and has_fds:
            variants = (0, 1, 2, 3, 4)
        for variant in variants:
            n_exec += _explore_stream(res, si, idxs, quick, variant)
    res.count('transitions', n_exec)
    res.count('evaluations', n_exec)
    res.count('traces', n_exec)
    return res


def _task_send(task):
    part, nparts = task
    res = core.Result()
    nb = NSEND
    seqs = [(i,) for i in range(nb)] + \
        list(itertools.product(range(nb), repeat=2)) + \
        list(itertools.product(range(nb), repeat=3))
    for si, idxs in enumerate(seqs):
        if si % nparts != part:
            continue
        res.count('transitions')
        res.count('evaluations')
        res.count('traces')
        res.count('states')
        if len(idxs) > 1:
            res.count('nontrivial')
        for tag, what in sender_case(idxs):
            res.violation('%s/sender/%s' % (PROP, tag),
                          'calls with bodies %r: %s'
                          % ([BODIES[i][0] for i in idxs], what),
                          {'part': 'send', 'idxs': list(idxs)},
                          size=len(idxs))
        # the same calls with some of them not expecting a reply
        for nr in ((0,), (len(idxs) - 1,), tuple(range(len(idxs)))):
            if len(idxs) == 1 and nr != (0,):
                continue
            res.count('transitions')
            res.count('evaluations')
            res.count('traces')
            for tag, what in sender_case(idxs, noreply=nr):
                res.violation('%s/sender/no-reply/%s' % (PROP, tag),
                              'calls with bodies %r, those at %r made with '
                              'expectReply=False: %s'
                              % ([BODIES[i][0] for i in idxs], list(nr),
                                 what),
                              {'part': 'send', 'idxs': list(idxs),
                               'noreply': list(nr)}, size=len(idxs))
    return res


def run_many_fds(counts, mode, little):
    """messages carrying many descriptors (counts[k] each, as 'ah'):
    mode 'ahead' - the descriptors of all messages arrive before the first
    read; 'each' - those of each message arrive just before its read;
    'sender' - the same messages are sent through callRemote"""
    viol = []
    base = 1000
    fds, raws = [], []
    for k, n in enumerate(counts):
        mine = list(range(base, base + n))
        base += n
        fds.append(mine)
        raws.append(R.encode_message(
            1, 60 + k, {'path': '/p', 'member': 'Many', 'unix_fds': n},
            'ahu', [mine, k], little=little, fds=[]))
    raws.append(R.encode_message(1, 99, {'path': '/p', 'member': 'Probe',
                                         'unix_fds': 1}, 'h', [777],
                                 little=little, fds=[]))
    try:
        p, t = c04.make_server()
        p.dataReceived(c04.SERVER_HS)
        if mode == 'ahead':
            for mine in fds:
                for fd in mine:
                    p.fileDescriptorReceived(fd)
            p.dataReceived(b''.join(raws[:-1]))
        else:
            for mine, raw in zip(fds, raws):
                for fd in mine:
                    p.fileDescriptorReceived(fd)
                p.dataReceived(raw)
        p.fileDescriptorReceived(777)
        p.dataReceived(raws[-1])
        got = [getattr(m, 'body', None) for m in p.got]
        want = [[mine, k] for k, mine in enumerate(fds)] + [[777]]
        if got != want:
            bad = [k for k in range(min(len(got), len(want)))
                   if got[k] != want[k]]
            k = bad[0] if bad else min(len(got), len(want))
            first = None
            if bad and got[k] and isinstance(got[k][0], list):
                first = next((j for j in range(min(len(got[k][0]),
                                                   len(want[k][0])))
                              if got[k][0][j] != want[k][0][j]), None)
            viol.append(('many-descriptors/%s/%s' % (
                mode, 'count' if len(got) != len(want) else 'misattributed'),
                'messages carrying %r descriptors (%s): %d of %d messages '
                'delivered; message %d differs first at descriptor index %r'
                % (list(counts), 'all descriptors ahead of the first read'
                   if mode == 'ahead' else 'each message\'s descriptors '
                   'just before its bytes', len(got), len(want), k, first)))
    except Exception as e:
        viol.append(('many-descriptors/%s/raises-%s'
                     % (mode, type(e).__name__),
                     'counts %r: raised %r' % (list(counts), e)))
    return viol


MANY_FDS = [(16,), (17,), (253,), (254,), (255,), (256,), (257,), (1024,),
            (200, 53), (200, 54), (253, 1), (253, 253), (254, 254), (100,) * 3,
            (128, 128, 1), (1, 253), (1, 254)]


def _task_many_fds(counts):
    res = core.Result()
    if counts == 'refusable':
        res.count('states', 7)
        res.count('transitions', 7)
        res.count('evaluations', 7)
        res.count('traces', 7)
        res.count('nontrivial', 7)
        for tag, what in refusable_sends():
            res.violation('%s/sender/%s' % (PROP, tag), what,
                          {'part': 'refusable'}, size=1)
        return res
    for mode in ('ahead', 'each'):
        for little in (True, False):
            res.count('states')
            res.count('transitions')
            res.count('evaluations')
            res.count('traces')
            res.count('nontrivial')
            for tag, what in run_many_fds(counts, mode, little):
                res.violation('%s/receiver/%s' % (PROP, tag), what,
                              {'part': 'many', 'args': [list(counts), mode,
                                                        little]},
                              size=sum(counts))
    return res


def run(ctx):
    ctx.rule = (
        'sender: every sequence of <= 3 calls over %d bodies (none, h, hh, '
        'shs, ah with 0/2/3 entries, (hs)h, s, hh and ah naming one '
        'descriptor twice; received only, in streams of '
        '<= 2: v, a{sv}h, hav holding descriptors) through callRemote on a UNIX '
        'transport; the transport log is grouped by write and compared. '
        'receiver: the same sequences, as method calls and with returns, '
        'signals and errors carrying the descriptors (all of length <= 2, those of length 3 '
        'with >= 2 descriptors%s) reference-encoded in alternating byte '
        'order, cut by no cut / every single cut%s, and for each cut set '
        'every interleaving of descriptor arrivals and reads in which each '
        'descriptor arrives before the read holding the last byte of its '
        'message, and schedules in which the first descriptors arrive '
        'before the read that completes the handshake (BEGIN alone or in one '
        'read with message bytes); a trailing probe message checks that exactly the declared '
        'count was consumed. Descriptors inside variants of calls, in '
        'return values and in signals: refused, or written with the '
        'descriptors attached and declared. Nested delivery: the handler of a message '
        'takes delivery of everything still to come before it returns. '
        'Messages carrying 16..1024 descriptors each '
        '(one to three in a row), all descriptors ahead of the first read or '
        'each message\'s just before it. state = message sequence; transition = one '
        'executed schedule; non-trivial = at least one descriptor arrives '
        'after a read' % (NSEND, ' (a quarter)' if ctx.quick else '',
                          '' if ctx.quick else ' / pairs near boundaries'))
    ctx.bounds = {'max_messages': 3, 'max_cuts': 1 if ctx.quick else 2}
    ctx.assumptions = ['descriptors arrive in sending order, each no later '
                       'than the read containing the final byte of its '
                       'message (the statement\'s stream-socket model)']
    n = ctx.jobs * 3
    ctx.map(_task_send, [(i, n) for i in range(n)])
    ctx.map(_task_recv, [(ctx.quick, i, n) for i in range(n)])
    ctx.map(_task_many_fds, MANY_FDS + ['refusable'])


def replay(data):
    if data['part'] == 'refusable':
        return [('%s/sender/%s' % (PROP, t), w) for t, w in
                refusable_sends()]
    if data['part'] == 'many':
        a = data['args']
        return [('%s/receiver/%s' % (PROP, t), w)
                for t, w in run_many_fds(tuple(a[0]), a[1], a[2])]
    if data['part'] == 'send':
        found = sender_case(tuple(data['idxs']),
                            noreply=tuple(data.get('noreply', ())))
        return [('%s/sender/%s' % (PROP, t), w) for t, w in found]
    found = receiver_case(tuple(data['idxs']), tuple(data['cuts']),
                          tuple(data['order']), data['little'],
                          tuple(data.get('types') or ()) or None,
                          early=data.get('early', 0),
                          joined=data.get('joined', False),
                          nested_at=data.get('nested_at'))
    return [('%s/receiver/%s' % (PROP, t), w) for t, w in found]
