"""
C09 - connecting always concludes; a lost connection fails all pending work
exactly once.

A: client.connect() on a memory reactor: every address list (<= 3 entries
over unix/abstract/tcp/nonce-tcp, plus unknown kinds and the empty list) x
every reachability vector x the transport closing at every point of the
conversation on the first reachable endpoint (crash-point enumeration).

B: an established connection: explicit-state search over calls, disconnect
callbacks and remote-object proxies (explicit interface / known name /
introspection, two proxies for one object, dropped proxies), with the
connection loss inserted in every reachable state.
"""
import gc
import itertools

from mcx import core, explore, fakes, refcodec as R

PROP = 'C09'

# ---------------------------------------------------------------------------
# part A

ENTRIES = {
    'unix': 'unix:path=/tmp/sock',
    'abstract': 'unix:abstract=abs,guid=5',
    'tcp': 'tcp:host=h1,port=1001',
    'nonce': 'nonce-tcp:host=h2,port=1002,noncefile=/n',
    'bogus': 'foo:bar=1',
}


def conversation_steps(unix, variant):
    """the server's side of the conversation on a connected endpoint, as a
    list of steps; variant in hello-ok | hello-error | refused"""
    if variant == 'refused':
        return [('line', b'REJECTED EXTERNAL'), ('line', b'REJECTED'),
                ('line', b'REJECTED')]
    steps = []
    if variant == 'later-mech':
        # the first two mechanisms are refused the way the reference daemon
        # does it (REJECTED followed by the list of what it supports), the
        # third is accepted
        steps += [('line', b'REJECTED EXTERNAL DBUS_COOKIE_SHA1 ANONYMOUS'),
                  ('line', b'REJECTED EXTERNAL DBUS_COOKIE_SHA1 ANONYMOUS')]
    steps.append(('line', b'OK ' + fakes.GUID))
    if unix:
        steps.append(('line', b'AGREE_UNIX_FD' if variant != 'later-mech'
                      else b'ERROR "Unknown command"'))
    steps.append(('hello', 'hello-ok' if variant == 'later-mech'
                  else variant))
    return steps


def run_connect(entries, reach, variant, crash_at):
    """entries: tuple of ENTRIES keys; reach: tuple of bools per *usable*
    entry; crash_at: number of server steps delivered before the transport
    closes (None = never closes on its own).  Returns (observations dict)."""
    from twisted.internet.testing import MemoryReactorClock
    from twisted.python.failure import Failure
    from twisted.internet.error import ConnectionRefusedError
    from txdbus import client
    fakes.reset_process_state()
    r = MemoryReactorClock()
    saved = client.reactor
    client.reactor = r
    out = {'results': [], 'attempts': [], 'exc': None}
    try:
        addr = ';'.join(ENTRIES[e] for e in entries)
        try:
            d = client.connect(r, addr)
        except Exception as e:
            out['exc'] = 'connect() raised %r' % (e,)
            return out
        d.addBoth(out['results'].append)
        usable = [e for e in entries if e != 'bogus']
        seen = 0
        proto = transport = None
        connected_kind = None
        for i, e in enumerate(usable):
            if len(r.connectors) <= seen:
                break                      # no further attempt was made
            kind = 'unix' if e in ('unix', 'abstract') else 'tcp'
            if kind == 'unix':
                rec = r.unixClients[len([x for x in out['attempts']
                                         if x[0] == 'unix'])]
                f = rec[1]
                out['attempts'].append(('unix', rec[0]))
            else:
                rec = r.tcpClients[len([x for x in out['attempts']
                                        if x[0] == 'tcp'])]
                f = rec[2]
                out['attempts'].append(('tcp', rec[0], rec[1]))
            connector = r.connectors[seen]
            seen += 1
            if reach[i]:
                proto = f.buildProtocol(None)
                transport = fakes.FakeUnixTransport() if kind == 'unix' \
                    else fakes.FakeTransport()
                proto.makeConnection(transport)
                connected_kind = kind
                break
            # the ways an address can be unreachable: refused, host name
            # that does not resolve, no route, timed out - varied by position
            from twisted.internet import error as TE
            kinds_of_failure = [
                ConnectionRefusedError('refused'),
                TE.DNSLookupError('no such host'),
                TE.NoRouteError('no route'),
                TE.TCPTimedOutError('timed out'),
                TE.ConnectError('failed')]
            f.clientConnectionFailed(
                connector,
                Failure(kinds_of_failure[(i + 1) % len(kinds_of_failure)]))
        out['extra_attempts'] = len(r.connectors) - seen
        out['connected'] = connected_kind
        if proto is not None:
            steps = conversation_steps(connected_kind == 'unix', variant)
            lost = False
            for k, st in enumerate(steps):
                if crash_at is not None and k == crash_at:
                    break
                if transport.disconnecting:
                    break
                if st[0] == 'line':
                    proto.dataReceived(st[1] + b'\r\n')
                else:
                    w = transport.written()
                    idx = w.find(b'BEGIN\r\n')
                    msgs = fakes.messages_of(w[idx + 7:]) if idx >= 0 else []
                    if not msgs:
                        out['exc'] = 'no Hello call after BEGIN'
                        break
                    s = msgs[0]['serial']
                    if st[1] == 'hello-ok':
                        proto.dataReceived(R.encode_message(
                            R.METHOD_RETURN, 1, {'reply_serial': s}, 's',
                            [':1.42']))
                    else:
                        # the refusal with a text, without any body, or with
                        # a body that does not start with a string
                        sig, body = {'hello-error': ('s', ['no']),
                                     'hello-error-bare': ('', []),
                                     'hello-error-nonstr': ('us', [7, 'no']),
                                     }[st[1]]
                        proto.dataReceived(R.encode_message(
                            R.ERROR, 1, {'reply_serial': s, 'error_name':
                                         'org.freedesktop.DBus.Error.Failed'},
                            sig, body))
            done_all = (crash_at is None or crash_at >= len(steps))
            if (crash_at is not None and crash_at <= len(steps)) or \
                    transport.disconnecting:
                # the transport closes (on its own, or because the client
                # asked for it)
                proto.connectionLost(fakes.lost_reason())
                lost = True
            out['lost'] = lost
            out['steps_done'] = len(steps) if done_all else crash_at
            out['hello_succeeded'] = (variant in ('hello-ok', 'later-mech')
                                      and done_all)
            # afterwards: run the clock out
            r.advance(1000)
        return out
    except Exception as e:
        out['exc'] = '%s: %s' % (type(e).__name__, e)
        return out
    finally:
        client.reactor = saved


def check_connect(res, entries, reach, variant, crash_at):
    res.count('transitions')
    res.count('evaluations')
    res.count('traces')
    o = run_connect(entries, reach, variant, crash_at)
    usable = [e for e in entries if e != 'bogus']
    rep = {'part': 'A', 'entries': list(entries), 'reach': list(reach),
           'variant': variant, 'crash_at': crash_at}
    tag = 'n=%d/%s/crash=%s' % (len(usable), variant, crash_at)
    if o['exc']:
        res.violation('%s/connect/raises/%s' % (PROP, tag),
                      'address %r reach %r: %s' % (entries, reach, o['exc']),
                      rep, size=len(entries))
        return
    # order: attempts are the usable entries in listed order up to and
    # including the first reachable one
    first = next((i for i, x in enumerate(reach) if x), None)
    want_n = len(usable) if first is None else first + 1
    want_attempts = []
    for e in usable[:want_n]:
        if e == 'unix':
            want_attempts.append(('unix', '/tmp/sock'))
        elif e == 'abstract':
            want_attempts.append(('unix', '\0abs'))
        elif e == 'tcp':
            want_attempts.append(('tcp', 'h1', 1001))
        else:
            want_attempts.append(('tcp', 'h2', 1002))
    if o['attempts'] != want_attempts or o.get('extra_attempts'):
        res.violation('%s/connect/order/%s' % (PROP, tag),
                      'address list %r with reachability %r: attempts %r '
                      '(+%s more), expected %r'
                      % (entries, reach, o['attempts'],
                         o.get('extra_attempts'), want_attempts), rep,
                      size=len(entries))
        return
    results = o['results']
    concluded = first is None or o.get('lost') or \
        o.get('hello_succeeded') or variant.startswith('hello-error') and \
        o.get('steps_done') == len(conversation_steps(
            o['connected'] == 'unix', variant))
    if not concluded:
        # the conversation is still in progress (no crash requested and the
        # server has more to say): nothing to demand yet
        if len(results) > 0 and not o.get('hello_succeeded'):
            res.violation('%s/connect/premature/%s' % (PROP, tag),
                          'Deferred fired %r before the conversation '
                          'concluded' % (results,), rep, size=len(entries))
        return
    if len(results) != 1:
        res.violation('%s/connect/fired-%d-times/%s' % (PROP, len(results),
                                                      tag),
                      'address list %r, reachability %r, conversation %s, '
                      'transport closed after %s server step(s): the connect '
                      'Deferred fired %d times (%r)'
                      % (entries, reach, variant, crash_at, len(results),
                         results), rep, size=len(entries) + (crash_at or 0))
        return
    r0 = results[0]
    from twisted.python.failure import Failure
    if o.get('hello_succeeded'):
        ok = not isinstance(r0, Failure) and \
            getattr(r0, 'busName', None) == ':1.42'
        if not ok:
            res.violation('%s/connect/success-value/%s' % (PROP, tag),
                          'Hello succeeded but the Deferred fired with %r '
                          '(busName %r)' % (r0, getattr(r0, 'busName', None)),
                          rep, size=len(entries))
    else:
        if not isinstance(r0, Failure):
            res.violation('%s/connect/false-success/%s' % (PROP, tag),
                          'no usable connection (%s, crash after %s) but the '
                          'Deferred fired with %r' % (variant, crash_at, r0),
                          rep, size=len(entries))
    res.outcome((len(usable), first, variant, crash_at,
                 type(r0).__name__))


def run_reconnect(entries, first_reach):
    """two connect() calls with the same reactor and address string: the
    second one walks the address list from the start again.  Returns the
    (kind, address) attempts of the second call and its Deferred results."""
    from twisted.internet.testing import MemoryReactorClock
    from twisted.python.failure import Failure
    from twisted.internet.error import ConnectionRefusedError
    from txdbus import client
    fakes.reset_process_state()
    r = MemoryReactorClock()
    saved = client.reactor
    client.reactor = r
    try:
        addr = ';'.join(ENTRIES[e] for e in entries)

        def attempts_from(start):
            out = []
            for c in r.connectors[start:]:
                pass
            return out

        def drive(reach):
            """answers the attempts of the connect() just started"""
            seen_unix = len(r.unixClients)
            seen_tcp = len(r.tcpClients)
            return seen_unix, seen_tcp
        results = []
        log = []
        for round_, reach in enumerate((first_reach, None)):
            u0, t0, c0 = len(r.unixClients), len(r.tcpClients), \
                len(r.connectors)
            res = []
            d = client.connect(r, addr)
            d.addBoth(res.append)
            att = []
            i = 0
            while True:
                # the attempt made so far but not yet answered
                made_u = r.unixClients[u0:]
                made_t = r.tcpClients[t0:]
                n_made = len(made_u) + len(made_t)
                if n_made <= i:
                    break
                conn = r.connectors[c0 + i]
                # which record is the i-th attempt: follow the entry kinds
                e = [x for x in entries if x != 'bogus'][i] \
                    if i < len([x for x in entries if x != 'bogus']) else None
                if e in ('unix', 'abstract'):
                    rec = made_u[len([a for a in att if a[0] == 'unix'])]
                    att.append(('unix', rec[0]))
                    f = rec[1]
                else:
                    rec = made_t[len([a for a in att if a[0] == 'tcp'])]
                    att.append(('tcp', rec[0], rec[1]))
                    f = rec[2]
                if reach is not None and reach == i:
                    p = f.buildProtocol(None)
                    t = fakes.FakeTransport()
                    p.makeConnection(t)
                    p.connectionLost(fakes.lost_reason())
                    break
                f.clientConnectionFailed(
                    conn, Failure(ConnectionRefusedError('refused')))
                i += 1
            log.append(att)
            results.append(res)
        return log, results, None
    except Exception as e:
        return None, None, '%s: %s' % (type(e).__name__, e)
    finally:
        client.reactor = saved


def _want_attempts(usable):
    out = []
    for e in usable:
        out.append({'unix': ('unix', '/tmp/sock'),
                    'abstract': ('unix', '\0abs'),
                    'tcp': ('tcp', 'h1', 1001),
                    'nonce': ('tcp', 'h2', 1002)}[e])
    return out


def _task_reconnect(_):
    res = core.Result()
    kinds = [k for k in ENTRIES if k != 'bogus']
    lists = []
    for n in (1, 2, 3):
        lists += list(itertools.product(kinds, repeat=n))
    for entries in lists:
        for first_reach in [None] + list(range(len(entries))):
            res.count('states')
            res.count('transitions')
            res.count('evaluations')
            res.count('traces')
            res.count('nontrivial')
            log, results, err = run_reconnect(entries, first_reach)
            rep = {'part': 'reconnect', 'entries': list(entries),
                   'first_reach': first_reach}
            if err:
                res.violation('%s/reconnect/raises' % PROP,
                              'connecting twice to %r raised %s'
                              % (entries, err), rep, size=len(entries))
                continue
            want1 = _want_attempts(entries if first_reach is None
                                   else entries[:first_reach + 1])
            want2 = _want_attempts(entries)
            if log[0] != want1 or log[1] != want2:
                res.violation(
                    '%s/reconnect/order' % PROP,
                    'address list %r: first connect() tried %r, a second '
                    'connect() with the same reactor and address tried %r, '
                    'expected %r' % (entries, log[0], log[1], want2), rep,
                    size=len(entries))
            elif len(results[0]) != 1 or len(results[1]) != 1:
                res.violation(
                    '%s/reconnect/fired' % PROP,
                    'address list %r: the two connect Deferreds fired %d and '
                    '%d times' % (entries, len(results[0]), len(results[1])),
                    rep, size=len(entries))
    res.sample({'reconnect': 'every address list of <= 3 entries, first '
                'connect failing everywhere or reaching entry k and being '
                'lost, then a second connect()'})
    return res


def _task_connect(task):
    quick, part, nparts = task
    res = core.Result()
    kinds = list(ENTRIES)
    lists = [()]
    for n in (1, 2, 3):
        lists += list(itertools.product(kinds, repeat=n))
    idx = 0
    for entries in lists:
        usable = [e for e in entries if e != 'bogus']
        for reach in itertools.product((False, True), repeat=len(usable)):
            idx += 1
            if idx % nparts != part:
                continue
            res.count('states')
            first = next((i for i, x in enumerate(reach) if x), None)
            if first is None:
                check_connect(res, entries, reach, 'hello-ok', None)
                continue
            unix = usable[first] in ('unix', 'abstract')
            for variant in ('hello-ok', 'hello-error', 'hello-error-bare',
                            'hello-error-nonstr', 'refused', 'later-mech'):
                n = len(conversation_steps(unix, variant))
                for crash_at in list(range(0, n + 1)) + [None]:
                    check_connect(res, entries, reach, variant, crash_at)
                    res.count('nontrivial')
            if idx % 50 == 0:
                res.sample({'address': ';'.join(ENTRIES[e] for e in entries),
                            'reachable': list(reach),
                            'crash_points': 'every server step'})
    return res


# ---------------------------------------------------------------------------
# part B

XML = '''<!DOCTYPE node PUBLIC "-//freedesktop//DTD D-BUS Object Introspection 1.0//EN"
"http://www.freedesktop.org/standards/dbus/1.0/introspect.dtd">
<node name="/obj2">
  <interface name="org.ex.Intro%d">
    <method name="Ping"><arg direction="out" type="s"/></method>
  </interface>
</node>'''


class W:
    pass


class LossScenario(explore.Scenario):
    name = 'C09/loss'

    EVENTS = ['call0', 'call1', 'call2', 'reply0', 'cbA', 'cbB', 'cancelA',
              'proxE', 'proxK', 'proxI', 'introReply', 'proxI2',
              'pcbE', 'pcbK', 'pcbI', 'pcbI2', 'pcancelE', 'dropK',
              # the same callable registered a second time / one more
              # registration of it cancelled
              'cbA2', 'cancelA2', 'pcbE2', 'pcancelE2',
              # call1 answered by an error reply that has no body
              'error1',
              # a disconnect callback that itself issues a call (with a
              # deadline) when it runs
              'cbCall',
              # six seconds pass (call1's deadline is five)
              'tick',
              # a disconnect callback on a proxy that, when it runs, obtains
              # a fresh proxy (explicit interface) on the same connection
              'pgetE', 'pgetK',
              # a call that expects no reply, made with a deadline all the
              # same (the keyword is accepted for every call)
              'callNR']

    def build(self):
        from txdbus import interface as I
        w = W()
        w.ki = fakes.KnownInterfaces().__enter__()
        w.cw = fakes.ClientWorld()
        w.cw.sent()
        w.iface = I.DBusInterface('org.ex.Known', I.Method('Ping', '', 's'))
        w.calls = {}           # name -> results list
        w.call_serial = {}
        w.deadline = {}
        w.completed = set()
        w.errored = set()
        w.timedout = set()
        w.cbs = {}             # callback name -> list of invocations
        w.active_cbs = set()
        w.regs = {}            # callback name -> live registrations
        w.proxies = {}         # name -> proxy
        w.proxy_results = {}   # name -> results of getRemoteObject Deferred
        w.pcbs = {}            # (proxy name) -> invocations
        w.active_pcbs = set()
        w.dropped = set()
        w.used = set()
        w.lost = False
        w.intro_serial = {}
        w.nintro = 0
        return w

    def close(self, w):
        w.cw.close()
        w.ki.__exit__()

    def enabled(self, w):
        if w.lost:
            return []
        evs = []
        for e in self.EVENTS:
            if e in w.used or e not in self.params['events']:
                continue
            if e == 'reply0' and 'call0' not in w.used:
                continue
            if e == 'cancelA' and 'cbA' not in w.used:
                continue
            if e == 'error1' and ('call1' not in w.used or
                                  'call1' in w.timedout):
                continue
            if e == 'cbA2' and 'cbA' not in w.used:
                continue
            if e == 'cancelA2' and not ({'cbA2', 'cancelA'} <= w.used):
                continue
            if e == 'pcbE2' and 'pcbE' not in w.used:
                continue
            if e == 'pcancelE2' and not ({'pcbE2', 'pcancelE'} <= w.used):
                continue
            if e == 'introReply' and not w.intro_serial:
                continue
            if e in ('pcbE', 'pgetE') and 'E' not in w.proxies:
                continue
            if e == 'pgetK' and ('K' not in w.proxies or 'K' in w.dropped):
                continue
            if e in ('pcbK', 'dropK') and 'K' not in w.proxies:
                continue
            if e == 'pcbK' and 'K' in w.dropped:
                continue
            if e == 'pcbI' and 'I' not in w.proxies:
                continue
            if e == 'pcbI2' and 'I2' not in w.proxies:
                continue
            if e == 'pcancelE' and 'pcbE' not in w.used:
                continue
            evs.append((e,))
        evs.append(('lose',))
        return evs

    def _watch(self, d, sink):
        d.addCallbacks(lambda v: sink.append(('ok', type(v).__name__)),
                       lambda f: sink.append(('err', type(f.value).__name__)))

    def apply(self, w, ev):
        e = ev[0]
        w.used.add(e)
        conn = w.cw.conn
        try:
            if e == 'callNR':
                sink = w.calls.setdefault('callNR', [])
                d = conn.callRemote('/obj', 'Notify', interface='org.ex.I',
                                    destination='org.ex.Dest',
                                    expectReply=False, timeout=4)
                self._watch(d, sink)
                w.cw.sent()
                w.completed.add('callNR')
            elif e.startswith('call'):
                i = int(e[4:])
                timeout = {0: None, 1: 5, 2: 9}[i]
                sink = w.calls.setdefault(e, [])
                d = conn.callRemote('/obj', 'M%d' % i, interface='org.ex.I',
                                    destination='org.ex.Dest',
                                    timeout=timeout)
                self._watch(d, sink)
                w.call_serial[e] = w.cw.sent()[0]['serial']
                w.deadline[e] = timeout
            elif e == 'reply0':
                conn.dataReceived(R.encode_message(
                    R.METHOD_RETURN, 500,
                    {'reply_serial': w.call_serial['call0']}, 's', ['r']))
                w.completed.add('call0')
            elif e == 'tick':
                w.cw.clock.advance(6)
                if 'call1' in w.used and 'call1' not in w.errored:
                    w.timedout.add('call1')
            elif e == 'cbCall':
                sink = w.calls.setdefault('late', [])

                def cb_call(c, reason, sink=sink):
                    d = c.callRemote('/obj', 'Late', interface='org.ex.I',
                                     destination='org.ex.Dest', timeout=7)
                    self._watch(d, sink)
                conn.notifyOnDisconnect(cb_call)
            elif e == 'error1':
                conn.dataReceived(R.encode_message(
                    R.ERROR, 501,
                    {'reply_serial': w.call_serial['call1'],
                     'error_name': 'org.ex.Refused'}))
                w.errored.add('call1')
            elif e in ('cbA', 'cbB'):
                sink = w.cbs.setdefault(e, [])

                def cb(c, reason, sink=sink):
                    sink.append((c is conn, type(reason.value).__name__))
                w.cbs[e + '.fn'] = cb
                conn.notifyOnDisconnect(cb)
                w.active_cbs.add(e)
                w.regs[e] = 1
            elif e == 'cbA2':
                conn.notifyOnDisconnect(w.cbs['cbA.fn'])
                w.regs['cbA'] += 1
                w.active_cbs.add('cbA')
            elif e in ('cancelA', 'cancelA2'):
                conn.cancelNotifyOnDisconnect(w.cbs['cbA.fn'])
                w.regs['cbA'] -= 1
                if not w.regs['cbA']:
                    w.active_cbs.discard('cbA')
            elif e == 'proxE':
                sink = w.proxy_results.setdefault('E', [])
                d = conn.getRemoteObject('org.ex.Dest', '/obj', w.iface)
                d.addCallback(lambda p: w.proxies.__setitem__('E', p) or p)
                self._watch(d, sink)
            elif e == 'proxK':
                # same bus name and path as proxE, interface given by name
                sink = w.proxy_results.setdefault('K', [])
                d = conn.getRemoteObject('org.ex.Dest', '/obj',
                                         'org.ex.Known')
                d.addCallback(lambda p: w.proxies.__setitem__('K', p) or p)
                self._watch(d, sink)
            elif e in ('proxI', 'proxI2'):
                name = e[4:]
                sink = w.proxy_results.setdefault(name, [])
                if name == 'I':
                    d = conn.getRemoteObject('org.ex.Dest', '/obj2')
                else:
                    # a list of names needing introspection, same object
                    d = conn.getRemoteObject('org.ex.Dest', '/obj2',
                                             ['org.ex.Intro0'])
                d.addCallback(
                    lambda p, name=name: w.proxies.__setitem__(name, p) or p)
                self._watch(d, sink)
                msgs = w.cw.sent()
                if msgs:
                    w.intro_serial[name] = msgs[0]['serial']
            elif e == 'introReply':
                for name, s in sorted(w.intro_serial.items()):
                    conn.dataReceived(R.encode_message(
                        R.METHOD_RETURN, 600 + w.nintro, {'reply_serial': s},
                        's', [XML % 0]))
                    w.nintro += 1
                    w.completed.add('intro' + name)
                w.intro_serial = {}
            elif e in ('pgetE', 'pgetK'):
                name = e[4:]
                sink = w.pcbs.setdefault('G' + name, [])
                prox = w.proxies[name]
                got = w.proxy_results.setdefault('late' + name, [])

                def pget(p, reason, sink=sink, prox=prox, got=got,
                         name=name):
                    sink.append((p is prox, type(reason.value).__name__))
                    d = conn.getRemoteObject('org.ex.Dest', '/fresh' + name,
                                             w.iface)
                    d.addCallback(lambda q: w.proxies.__setitem__(
                        'late' + name, q) or q)
                    self._watch(d, got)
                prox.notifyOnDisconnect(pget)
                w.active_pcbs.add('G' + name)
                w.regs['pG' + name] = 1
            elif e == 'pcbE2':
                w.proxies['E'].notifyOnDisconnect(w.pcbs['E.fn'])
                w.regs['pE'] += 1
                w.active_pcbs.add('E')
            elif e.startswith('pcb'):
                name = e[3:]
                sink = w.pcbs.setdefault(name, [])
                prox = w.proxies[name]

                def pcb(p, reason, sink=sink, prox=prox):
                    sink.append((p is prox, type(reason.value).__name__))
                w.pcbs[name + '.fn'] = pcb
                prox.notifyOnDisconnect(pcb)
                w.active_pcbs.add(name)
                w.regs['p' + name] = 1
            elif e in ('pcancelE', 'pcancelE2'):
                w.proxies['E'].cancelNotifyOnDisconnect(w.pcbs['E.fn'])
                w.regs['pE'] -= 1
                if not w.regs['pE']:
                    w.active_pcbs.discard('E')
            elif e == 'dropK':
                del w.proxies['K']
                w.dropped.add('K')
                gc.collect()
            elif e == 'lose':
                w.lost = True
                conn.connectionLost(fakes.lost_reason())
        except Exception as ex:
            return [('%s/loss/%s/raises-%s' % (PROP, e, type(ex).__name__),
                     'event %r after %r raised %r'
                     % (e, sorted(w.used - {e}), ex))]
        if e == 'lose':
            return self._after_loss(w)
        # before the loss nothing connection-related may have fired
        viol = []
        for name, inv in list(w.cbs.items()) + list(w.pcbs.items()):
            if isinstance(inv, list) and inv:
                viol.append(('%s/loss/callback-before-loss' % PROP,
                             'disconnect callback %s ran before the '
                             'connection was lost' % name))
        return viol

    def _after_loss(self, w):
        viol = []
        hist = sorted(w.used - {'lose'})
        # afterwards: the clock runs out; nothing more may fire
        try:
            w.cw.clock.advance(1000)
        except Exception as ex:
            viol.append(('%s/loss/afterwards-raises-%s'
                         % (PROP, type(ex).__name__),
                         'running the clock out after the loss raised %r'
                         % (ex,)))
        for name, sink in w.calls.items():
            if name in w.timedout:
                if sink != [('err', 'TimeOut')]:
                    viol.append(('%s/loss/timed-out-call-disturbed' % PROP,
                                 '%s had timed out before the loss; '
                                 'afterwards its results are %r'
                                 % (name, sink)))
            elif name in w.errored:
                if sink != [('err', 'RemoteError')]:
                    viol.append(('%s/loss/errored-call-disturbed' % PROP,
                                 '%s had been answered with an error reply '
                                 'before the loss; its results are %r'
                                 % (name, sink)))
            elif name == 'callNR':
                if sink != [('ok', 'NoneType')]:
                    viol.append(('%s/loss/no-reply-call' % PROP,
                                 'a call made with expectReply=False and a '
                                 'timeout ended as %r, expected to complete '
                                 'with None at once' % (sink,)))
            elif name in w.completed:
                if sink != [('ok', 'str')]:
                    viol.append(('%s/loss/completed-call-disturbed' % PROP,
                                 '%s had completed before the loss; '
                                 'afterwards its results are %r'
                                 % (name, sink)))
            elif sink != [('err', 'ConnectionDone')]:
                kind = 'never-failed' if not sink else \
                    'failed-%d-times' % len(sink) if len(sink) > 1 else \
                    'failed-with-%s' % sink[0][1]
                viol.append(('%s/loss/pending-call/%s' % (PROP, kind),
                             'after %r the loss left call %s with results %r,'
                             ' expected one failure with the loss reason'
                             % (hist, name, sink)))
        for name, s in w.intro_serial.items():
            sink = w.proxy_results.get(name, [])
            if len(sink) != 1 or sink[0][0] != 'err':
                viol.append(('%s/loss/pending-introspection' % PROP,
                             'getRemoteObject (%s) was waiting for '
                             'introspection at the loss; its Deferred: %r'
                             % (name, sink)))
        left = [c for c in w.cw.clock.getDelayedCalls() if c.active()]
        if left:
            viol.append(('%s/loss/timer-left' % PROP,
                         'after %r + loss %d delayed call(s) remain'
                         % (hist, len(left))))
        for name in ('cbA', 'cbB'):
            if name not in w.cbs:
                continue
            inv = w.cbs[name]
            want = [(True, 'ConnectionDone')] if name in w.active_cbs else []
            if w.regs.get(name, 0) == 2 and inv == want * 2:
                # the same callable registered twice and still twice: once
                # per registration is as good a reading as once
                inv = want
            if inv != want:
                viol.append(('%s/loss/connection-callback/%s/ran-%d-times'
                             % (PROP, 'registered' if want else 'cancelled',
                                len(inv)),
                             'after %r: connection disconnect callback %s '
                             '(%s) ran %r' % (hist, name, 'registered' if want
                                              else 'cancelled', inv)))
        for name in ('E', 'K', 'I', 'I2', 'GE', 'GK'):
            if name not in w.pcbs:
                continue
            inv = w.pcbs[name]
            if name.lstrip('G') in w.dropped:
                continue        # not live any more: nothing demanded
            want = [(True, 'ConnectionDone')] if name in w.active_pcbs else []
            if w.regs.get('p' + name, 0) == 2 and inv == want * 2:
                inv = want
            if inv != want:
                viol.append(('%s/loss/proxy-callback/%s/%s/ran-%d-times'
                             % (PROP, {'E': 'explicit', 'K': 'known-name',
                                       'I': 'introspected',
                                       'I2': 'introspected-list',
                                       'GE': 'explicit-obtaining-a-proxy',
                                       'GK': 'known-name-obtaining-a-proxy'
                                       }[name],
                                'registered' if want else 'cancelled',
                                len(inv)),
                             'after %r: disconnect callback of live proxy %s '
                             '(%s) ran %r' % (hist, name, 'registered' if want
                                              else 'cancelled', inv)))
        for name, sink in w.proxy_results.items():
            if name in ('E', 'K') and sink != [('ok', 'RemoteDBusObject')]:
                viol.append(('%s/loss/getRemoteObject/%s' % (PROP, name),
                             'getRemoteObject with known interfaces gave %r'
                             % (sink,)))
            if ('intro' + name) in w.completed and \
                    sink != [('ok', 'RemoteDBusObject')]:
                viol.append(('%s/loss/getRemoteObject/introspected-%s'
                             % (PROP, name),
                             'getRemoteObject by introspection (%s) gave %r'
                             % (name, sink)))
        return viol

    def canon(self, w):
        c = w.cw.conn
        h = getattr(c, 'objHandler', None)
        sizes = (len(getattr(c, '_dcCallbacks', ()) or ()),
                 len(getattr(c, '_pendingCalls', ()) or ()),
                 len(getattr(h, '_weakProxies', ()) or ()))
        timers = tuple(sorted(round(c.getTime() - w.cw.clock.seconds(), 3)
                              for c in w.cw.clock.getDelayedCalls()
                              if c.active()))
        return (tuple(sorted(w.used)), w.lost, sizes,
                tuple(sorted(w.timedout)), timers)

    def nontrivial(self, hist):
        return len(hist) > 2


ALL = LossScenario.EVENTS


def run_long_lived_loss(gap, timeouts):
    """call A outstanding while gap-1 further messages are built in the
    process, then call B, then the connection is lost: both fail once with
    the reason and no timer stays"""
    from mcx import scale
    viol = []
    cw = fakes.ClientWorld()
    try:
        cw.sent()
        conn = cw.conn
        results = {'A': [], 'B': []}
        serials = {}

        def call(tag, timeout):
            d = conn.callRemote('/o', 'Get' + tag, interface='a.b',
                                destination='c.d', timeout=timeout)
            d.addBoth(lambda r: results[tag].append(
                ('err', type(r.value).__name__, str(r.value))
                if hasattr(r, 'value') else ('ok', r)))
            serials[tag] = cw.sent()[0]['serial']
        call('A', timeouts[0])
        scale.build_messages(gap - 1)
        call('B', timeouts[1])
        reason = fakes.lost_reason('long-lived')
        conn.connectionLost(reason)
        left = [c for c in cw.clock.getDelayedCalls() if c.active()]
        cw.clock.advance(1000)
        want = ('err', type(reason.value).__name__, str(reason.value))
        if results != {'A': [want], 'B': [want]}:
            viol.append(('long-lived-loss/%s' % (
                'same-serial' if serials['A'] == serials['B'] else
                'completions'),
                'call A (serial %d) outstanding, %d messages built, call B '
                '(serial %d), connection lost: the calls ended with %r, '
                'expected each to fail once with %r'
                % (serials['A'], gap - 1, serials['B'], results, want)))
        if left:
            viol.append(('long-lived-loss/timer-left',
                         '%d timer(s) still armed after the loss (gap %d, '
                         'timeouts %r)' % (len(left), gap, timeouts)))
    except Exception as e:
        viol.append(('long-lived-loss/raises-%s' % type(e).__name__,
                     'gap %d: raised %r' % (gap, e)))
    finally:
        cw.close()
    return viol


def run_two_connections(first_lost, kinds):
    """two connections in one process (a session and a system bus), each
    with proxies that have disconnect callbacks, and an outstanding call on
    each: losing one fires exactly its own, losing the other later exactly
    the other's"""
    from txdbus import interface as I
    viol = []
    ki = fakes.KnownInterfaces().__enter__()
    worlds = {'A': fakes.ClientWorld(), 'B': fakes.ClientWorld()}
    try:
        iface = I.DBusInterface('org.ex.Two', I.Method('Ping', '', 's'))
        fired = {}
        calls = {}
        keep = []
        for tag, cw in worlds.items():
            cw.sent()
            for k, kind in enumerate(kinds):
                got = []
                cw.conn.getRemoteObject(
                    'org.ex.Dest', '/o%d' % k,
                    iface if kind == 'explicit' else 'org.ex.Two'
                ).addCallback(got.append)
                prox = got[0]
                keep.append(prox)
                key = '%s.proxy%d' % (tag, k)
                fired[key] = []
                prox.notifyOnDisconnect(
                    lambda p_, r, key=key: fired[key].append(
                        type(r.value).__name__))
            key = tag + '.conn'
            fired[key] = []
            cw.conn.notifyOnDisconnect(
                lambda c, r, key=key: fired[key].append(
                    type(r.value).__name__))
            calls[tag] = []
            d = cw.conn.callRemote('/o', 'M', interface='a.b',
                                   destination='c.d', timeout=5)
            d.addCallbacks(lambda v, tag=tag: calls[tag].append('ok'),
                           lambda f, tag=tag: calls[tag].append(
                               type(f.value).__name__))
            cw.sent()
        order = [first_lost, 'B' if first_lost == 'A' else 'A']
        lost = []
        for tag in order:
            worlds[tag].conn.connectionLost(fakes.lost_reason(
                'lost-' + tag))
            lost.append(tag)
            want = {k: (['ConnectionLost'] if k[0] in lost else [])
                    for k in fired}
            wantc = {t: (['ConnectionLost'] if t in lost else [])
                     for t in calls}
            if fired != want or calls != wantc:
                bad = sorted(k for k in fired if fired[k] != want[k]) + \
                    sorted(t + '.call' for t in calls
                           if calls[t] != wantc[t])
                viol.append(('two-connections/%s' % (
                    'other-connection-notified' if any(
                        b[0] not in lost for b in bad) else 'own'),
                    'connections A and B with %d proxies each (%s); lost so '
                    'far: %r; callbacks fired %r, calls ended %r - wrong '
                    'for %r' % (len(kinds), '/'.join(kinds), lost, fired,
                                calls, bad)))
                break
        for cw in worlds.values():
            cw.clock.advance(100)
    except Exception as e:
        viol.append(('two-connections/raises-%s' % type(e).__name__,
                     '%r' % (e,)))
    finally:
        for cw in worlds.values():
            cw.close()
        ki.__exit__()
    return viol


def _task_two_connections(_):
    res = core.Result()
    for first in ('A', 'B'):
        for kinds in (('explicit',), ('known',), ('explicit', 'known'),
                      ('explicit', 'explicit', 'known')):
            res.count('states')
            res.count('transitions', 2)
            res.count('evaluations', 2)
            res.count('nontrivial')
            for t, w in run_two_connections(first, kinds):
                res.violation('%s/%s' % (PROP, t), w,
                              {'part': 'two', 'args': [first, list(kinds)]},
                              size=len(kinds))
    return res


def _task_long_lived(gap):
    res = core.Result()
    for timeouts in ((None, None), (5, None), (None, 5), (5, 7)):
        res.count('states')
        res.count('transitions', gap + 3)
        res.count('evaluations')
        res.count('nontrivial')
        for t, w in run_long_lived_loss(gap, timeouts):
            res.violation('%s/%s' % (PROP, t), w,
                          {'part': 'long-lived', 'args': [gap,
                                                          list(timeouts)]},
                          size=gap)
    return res


def run(ctx):
    ctx.level = 'model_checking'
    ctx.rule = (
        'A (crash-point enumeration): every address list of <= 3 entries '
        'over %r (and the empty list) x every reachability vector; on the '
        'first reachable endpoint a scripted server runs the handshake and '
        'Hello (success / error reply with a text, without a body, with a non-string first value / all mechanisms refused / the first two refused with the list of supported mechanisms and the third accepted) and the '
        'transport closes after 0..n server steps or not at all; endpoints '
        'must be tried in order and none after the first reachable, and the '
        'Deferred must have fired exactly once at quiescence (connection '
        'with busName iff Hello succeeded); every address list connected to '
        'twice with the same reactor (the second walk starts from the first '
        'entry again). B: search over the events %r '
        '(each at most once) with the connection loss as a child of every '
        'reachable state; at the loss every outstanding call must fail once '
        'with the reason, completed ones stay, no timer remains, every '
        'registered and not cancelled callback on the connection and on '
        'every live proxy runs exactly once, and nothing fires when the '
        'clock is run out. Two connections in one process, each with '
        'proxies, callbacks and a call, lost one after the other. C '
        '(long-lived process): a call outstanding '
        'while 254..257 / 65534..65537 further messages are built, a second '
        'call, then the loss' % (sorted(ENTRIES), ALL))
    ctx.assumptions = [
        'a dropped proxy (no reference left, gc run) is not "live": nothing '
        'is demanded of its callbacks',
        'data does not arrive after connectionLost']
    n = ctx.jobs * 2
    ctx.map(_task_connect, [(ctx.quick, i, n) for i in range(n)])
    ctx.map(_task_reconnect, [0])
    ctx.map(_task_two_connections, [0])
    from mcx import scale
    ctx.map(_task_long_lived, scale.LADDER_SMALL[3:] + scale.LADDER_WORD)
    if ctx.quick:
        explore.explore(ctx, LossScenario, {'events': ALL}, max_depth=4,
                        label='loss: all events, depth 4')
        explore.explore(
            ctx, LossScenario,
            {'events': ['proxE', 'proxK', 'proxI', 'introReply', 'pcbE',
                        'pcbK', 'pcbI', 'proxI2', 'pcbI2', 'dropK',
                        'pcancelE', 'pcbE2', 'pcancelE2']},
            max_depth=16, label='loss: proxies only, to the fixpoint')
        explore.explore(
            ctx, LossScenario,
            {'events': ['proxE', 'proxK', 'proxI', 'introReply', 'pcbE',
                        'pcbK', 'pcbI', 'pgetE', 'pgetK', 'dropK']},
            max_depth=12, label='loss: proxies whose callbacks obtain a '
                                'fresh proxy, to the fixpoint')
        explore.explore(
            ctx, LossScenario,
            {'events': ['call0', 'call1', 'call2', 'reply0', 'cbA', 'cbB',
                        'cancelA', 'cbA2', 'cancelA2', 'error1', 'cbCall',
                        'tick', 'callNR']},
            max_depth=17, label='loss: calls and callbacks, to the fixpoint')
    else:
        explore.explore(ctx, LossScenario, {'events': ALL}, max_depth=7,
                        label='loss: all events, depth 7',
                        max_states=300000)
        explore.explore(
            ctx, LossScenario,
            {'events': ['proxE', 'proxK', 'proxI', 'introReply', 'pcbE',
                        'pcbK', 'pcbI', 'proxI2', 'pcbI2', 'dropK',
                        'pcancelE', 'pcbE2', 'pcancelE2']},
            max_depth=16, label='loss: proxies only, to the fixpoint')
        explore.explore(
            ctx, LossScenario,
            {'events': ['proxE', 'proxK', 'proxI', 'introReply', 'pcbE',
                        'pcbK', 'pcbI', 'pgetE', 'pgetK', 'dropK']},
            max_depth=12, label='loss: proxies whose callbacks obtain a '
                                'fresh proxy, to the fixpoint')
        explore.explore(
            ctx, LossScenario,
            {'events': ['call0', 'call1', 'call2', 'reply0', 'cbA', 'cbB',
                        'cancelA', 'cbA2', 'cancelA2', 'error1', 'cbCall',
                        'tick', 'callNR']},
            max_depth=17, label='loss: calls and callbacks, to the fixpoint')
    ctx.bounds = {'address_entries': 3}


def replay(data):
    if 'scenario' in data:
        return explore.replay_violation(data)
    if data.get('part') == 'two':
        return [('%s/%s' % (PROP, t), w) for t, w in
                run_two_connections(data['args'][0], tuple(data['args'][1]))]
    if data.get('part') == 'long-lived':
        return [('%s/%s' % (PROP, t), w)
                for t, w in run_long_lived_loss(*data['args'])]
    if data.get('part') == 'reconnect':
        res = _task_reconnect(0)
        return [(s, v['what']) for s, v in res.violations.items()]
    res = core.Result()
    check_connect(res, tuple(data['entries']), tuple(data['reach']),
                  data['variant'], data['crash_at'])
    return [(s, v['what']) for s, v in res.violations.items()]
