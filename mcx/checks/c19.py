"""
C19 - signatures split into their complete types; the signature inferred for
a Python value sent as a variant is one complete type, wrappers select their
type, and every value inside the claim round-trips through a variant.
"""
import itertools

from mcx import core, space, codec_space as CS, refcodec as R

PROP = 'C19'


# ---------------------------------------------------------------------------
# part A: genCompleteTypes / argument counting

def _check_split(res, sig, want):
    from txdbus import marshal as M, interface as I
    res.count('evaluations')
    res.count('transitions')
    rep = {'part': 'split', 'sig': sig}
    try:
        got = list(M.genCompleteTypes(sig))
    except Exception as e:
        res.violation('%s/split-raises/%s/%s' % (PROP, type(e).__name__, sig),
                      'genCompleteTypes(%r) raised %r' % (sig, e), rep,
                      size=len(sig))
        return
    if got != want:
        res.violation('%s/split/%s' % (PROP, sig),
                      'genCompleteTypes(%r) = %r, the grammar gives %r'
                      % (sig, got, want), rep, size=len(sig))
        return
    try:
        i = I.DBusInterface('org.verif.T', I.Method('m', sig, sig),
                            I.Signal('s', sig), noRegister=True)
        m = i.methods['m']
        s = i.signals['s']
        counts = (m.nargs, m.nret, s.nargs)
    except Exception as e:
        counts = repr(e)
    # the keyword defaults: only arguments, only returns
    try:
        i2 = I.DBusInterface('org.verif.K', I.Method('only_in', sig),
                             I.Method('only_out', returns=sig),
                             I.Method('neither'), I.Signal('bare'),
                             noRegister=True)
        late = I.Method('late_out', returns=sig)
        i2.addMethod(late)
        c2 = ((i2.methods['only_in'].nargs, i2.methods['only_in'].nret),
              (i2.methods['only_out'].nargs, i2.methods['only_out'].nret),
              (i2.methods['late_out'].nargs, i2.methods['late_out'].nret),
              (i2.methods['neither'].nargs, i2.methods['neither'].nret),
              i2.signals['bare'].nargs)
    except Exception as e:
        c2 = repr(e)
    n_ = len(want)
    if c2 != ((n_, 0), (0, n_), (0, n_), (0, 0), 0):
        res.violation('%s/argcount-defaults/%s' % (PROP, sig),
                      'Method(name, %r) / Method(name, returns=%r) / the '
                      'same added later / Method(name) / Signal(name) count '
                      '%r, the signature has %d complete types'
                      % (sig, sig, c2, n_), rep, size=len(sig))
        return
    if counts != (len(want),) * 3:
        res.violation('%s/argcount/%s' % (PROP, sig),
                      'Method/Signal declared with %r count %r arguments, '
                      'the signature has %d' % (sig, counts, len(want)), rep,
                      size=len(sig))
        return
    if len(sig) > 12 and len(sig) % 3:
        return
    # the same Method / Signal objects as members of a second interface;
    # taken out of the first and put back: the counts stay what the
    # signature says, for both interfaces, at every step
    try:
        j = I.DBusInterface('org.verif.U', m, s, noRegister=True)
        steps = []
        for step, fn in (('shared', lambda: None),
                         ('removed-from-first', lambda: (i.delMethod('m'),
                                                         i.delSignal('s'))),
                         ('added-back', lambda: (i.addMethod(m),
                                                 i.addSignal(s))),
                         ('removed-from-second', lambda: (j.delMethod('m'),
                                                          j.delSignal('s')))):
            fn()
            res.count('transitions')
            for holder in (i, j):
                mm = holder.methods.get('m')
                ss = holder.signals.get('s')
                got2 = ((mm.nargs, mm.nret) if mm is not None else None,
                        ss.nargs if ss is not None else None)
                want2 = ((len(want), len(want)) if mm is not None else None,
                         len(want) if ss is not None else None)
                if got2 != want2:
                    steps.append((step, holder.name, got2))
        if steps:
            res.violation('%s/argcount-shared/%s' % (PROP, steps[0][0]),
                          'a Method and a Signal with signature %r that are '
                          'members of two interfaces: after the step %r the '
                          'counts seen through %s are %r (the signature has '
                          '%d complete types)' % (sig, steps[0][0],
                                                  steps[0][1], steps[0][2],
                                                  len(want)), rep,
                          size=len(sig))
    except Exception as e:
        res.violation('%s/argcount-shared/raises-%s' % (PROP,
                                                        type(e).__name__),
                      'sharing / removing / re-adding members with signature '
                      '%r raised %r' % (sig, e), rep, size=len(sig))


def _task_split(task):
    res = core.Result()
    n = 0
    for ts in CS.cases_of(task):
        sig = space.sig_of(ts)
        want = [R.to_sig(t) for t in ts]
        _check_split(res, sig, want)
        n += 1
        res.count('states')
        if space.nontrivial(ts):
            res.count('nontrivial')
        if n % 3000 == 1:
            res.sample({'signature': sig, 'decomposition': want})
        res.outcome(len(want))
    return res


def _task_split_special(_):
    res = core.Result()
    fam = [s for s, _ in CS.deep_families()]
    # grammar-directed long/deep signatures
    fam.append('a' * 32 + 'y')
    fam.append('(' * 32 + 'y' + ')' * 32)
    fam.append('a(' * 31 + 'y' + ')' * 31)
    fam.append('a{s' * 20 + 'v' + '}' * 20)
    fam.append('(y)' * 85)
    fam.append('a{sv}' * 51)
    fam.append('((y)(y))' * 30)
    fam.append('((((y)y)y)y)((y(y(y(y)))))')
    fam.append('a{s(a{s(a{sv})})}a(ia(ia(i)))')
    fam.append('h(h)ah')
    for sig in fam:
        _check_split(res, sig, R.split_sig(sig))
        res.count('states')
        res.count('nontrivial')
    res.sample({'signature': fam[-3], 'decomposition': R.split_sig(fam[-3])})
    return res


# ---------------------------------------------------------------------------
# part B: inferred signatures and variant round trips

def _atoms():
    from txdbus import marshal as M
    return [
        True, False, 1, -5, 0, 2**31 - 1, -2**31, 2**31, -2**31 - 1,
        2**63 - 1, -2**63, 1.5, -0.0, 'a', '', 'é',
        bytearray(b'ab'), bytearray(),
        M.Byte(255), M.Byte(0), M.Boolean(1), M.Int16(-2**15),
        M.UInt16(2**16 - 1), M.Int32(-1), M.UInt32(2**32 - 1),
        M.Int64(-2**63), M.Int64(5), M.UInt64(2**64 - 1),
        M.Signature('a{sv}'), M.ObjectPath('/a/b'),
        # subclasses of the built-in types whose str() is not their value
        # (str-mixin enumeration members are such)
        space._OddStr('odd'), space._OddInt(7), space._OddFloat(2.5),
    ]


def _small_atoms():
    from txdbus import marshal as M
    return [True, 1, 2**40, 1.5, 'a', M.Byte(7), M.UInt32(2**32 - 1),
            M.ObjectPath('/a'), bytearray(b'x'), space._OddStr('odd')]


WRAPPER_CODES = {'Byte': 'y', 'Boolean': 'b', 'Int16': 'n', 'UInt16': 'q',
                 'Int32': 'i', 'UInt32': 'u', 'Int64': 'x', 'UInt64': 't',
                 'Signature': 'g', 'ObjectPath': 'o'}


def ref_type(v):
    """The D-Bus type (signature string) a value travels as by the
    *documented* rules, or None when the value is outside C19's claim."""
    cls = type(v).__name__
    if cls in WRAPPER_CODES and type(v).__module__ == 'txdbus.marshal':
        code = WRAPPER_CODES[cls]
        if code in R.INT_RANGE:
            lo, hi = R.INT_RANGE[code]
            if not lo <= v <= hi:
                return None
        return code
    if isinstance(v, bool):
        return 'b'
    if isinstance(v, int):
        if -2**31 <= v < 2**31:
            return 'i'
        if -2**63 <= v < 2**63:
            return 'x'
        return None
    if isinstance(v, float):
        return 'd'
    if isinstance(v, str):
        if '\0' in v:
            return None
        return 's'
    if isinstance(v, bytearray):
        return 'ay'
    if isinstance(v, list):
        if not v:
            return 'av'
        et = _common(v)
        if et is None:
            return None
        return 'a' + et
    if isinstance(v, tuple):
        if not v:
            return None                      # no empty struct in D-Bus
        fs = [ref_type(x) for x in v]
        if any(f is None for f in fs):
            return None
        return '(' + ''.join(fs) + ')'
    if isinstance(v, dict):
        if not v:
            return 'a{sv}'
        kts = {ref_type(k) for k in v}
        if len(kts) != 1 or None in kts:
            return None
        kt = kts.pop()
        if len(kt) != 1 or kt == 'v':
            return None
        if len({type(k) for k in v}) != 1:
            return None
        vt = _common(list(v.values()))
        if vt is None:
            return None
        return 'a{' + kt + vt + '}'
    return None


def _encodable_as(v, t):
    """Can v be written under type t (t = the type of the container's first
    element) - the 'common base type' case of the claim."""
    vt = ref_type(v)
    if vt is None:
        return False
    if vt == t:
        return True
    if t in R.INT_RANGE and isinstance(v, int):
        lo, hi = R.INT_RANGE[t]
        return lo <= v <= hi
    if t == 'b' and isinstance(v, int):
        return False          # would decode as True/False != v in general
    if t == 's' and isinstance(v, str):
        return True
    return False


def _common(elems):
    """Element type of a container by the claim: all elements share one D-Bus
    type -> it; they differ in Python class -> variants ('v') unless they are
    all instances of the first one's class, in which case the first one's type
    when every element is encodable under it; otherwise outside the claim."""
    ts = [ref_type(e) for e in elems]
    if any(t is None for t in ts):
        return None
    if len(set(ts)) == 1:
        return ts[0]
    classes = {type(e) for e in elems}
    if len(classes) == 1:
        return None       # same Python class, different D-Bus type: outside
    first = type(elems[0])
    if all(isinstance(e, first) for e in elems):
        # documented first-element rule: the common base type
        if all(_encodable_as(e, ts[0]) for e in elems):
            return ts[0]
        return None
    # some element is not an instance of the first one's class.  The
    # documented rule then sends every element as a variant - unless the
    # non-instances all come *before* ... no: order matters only through the
    # first element, which is what `first` captures.
    return 'v'


def normalise(v):
    if isinstance(v, bytearray):
        return list(v)
    if isinstance(v, (list, tuple)):
        return [normalise(x) for x in v]
    if isinstance(v, dict):
        return {k: normalise(x) for k, x in v.items()}
    return v


def _check_value(res, v, quick):
    from txdbus import marshal as M
    res.count('evaluations')
    want_t = ref_type(v)
    if want_t is None:
        res.count('outside_claim')
        return
    res.count('states')
    rep = {'part': 'value', 'value': repr(v)}
    key = _vshape(v)
    if len(key) > 60:
        key = '%s...%d' % (key[:40], len(key))
    try:
        sig = M.sigFromPy(v)
    except Exception as e:
        res.violation('%s/infer-raises/%s/%s' % (PROP, type(e).__name__, key),
                      'sigFromPy(%r) raised %r' % (v, e), rep, size=len(key))
        return
    res.count('transitions')
    ok = isinstance(sig, str) and R.is_valid_sig(sig) and \
        len(R.parse_sig(sig)) == 1
    if not ok:
        res.violation('%s/infer-not-single/%s' % (PROP, key),
                      'sigFromPy(%r) = %r is not one complete type'
                      % (v, sig), rep, size=len(key))
        return
    cls = type(v).__name__
    if cls in WRAPPER_CODES and type(v).__module__ == 'txdbus.marshal' \
            and sig != WRAPPER_CODES[cls]:
        res.violation('%s/wrapper/%s' % (PROP, cls),
                      'sigFromPy(%s(%r)) = %r, the wrapper selects %r'
                      % (cls, v, sig, WRAPPER_CODES[cls]), rep, size=1)
        return
    res.outcome(sig)
    want = normalise(v)
    for le in (True, False):
        for off in ((0, 3) if quick else range(8)):
            res.count('transitions', 2)
            try:
                n, chunks = M.marshal('v', [v], off, le)
                data = b''.join(chunks)
                m, out = M.unmarshal('v', b'\xaa' * off + data, off, le)
            except Exception as e:
                res.violation(
                    '%s/variant-roundtrip-raises/%s/%s'
                    % (PROP, type(e).__name__, key),
                    'value %r (inferred %r) as a variant: %r' % (v, sig, e),
                    rep, size=len(key))
                return
            if n != len(data) or m != n:
                res.violation('%s/variant-length/%s' % (PROP, key),
                              'variant of %r: reported %d, produced %d, '
                              'consumed %d' % (v, n, len(data), m), rep,
                              size=len(key))
                return
            if not (out[0] == want) and not R.same(out[0], want):
                res.violation('%s/variant-value/%s' % (PROP, key),
                              'variant of %r (inferred %r, offset %d, '
                              'little=%s) decoded to %r'
                              % (v, sig, off, le, out[0]), rep, size=len(key))
                return
            # and the bytes say what they hold: the reference decoder agrees
            try:
                (var,), _ = R.decode('v', b'\0' * off + data, off, le)
                plain = R.as_plain(R.parse_sig('v'), [var])[0]
                if not (plain == want or R.same(plain, want)):
                    raise R.RefError('reference decoder reads %r' % (plain,))
                if var.sig != sig:
                    raise R.RefError('variant carries signature %r'
                                     % var.sig)
            except R.RefError as e:
                res.violation('%s/variant-wire/%s' % (PROP, key),
                              'variant of %r (inferred %r): %s' % (v, sig, e),
                              rep, size=len(key))
                return


class _NoType:
    """a value for which no D-Bus type can be inferred"""


def _poison(v):
    """puts a value without D-Bus type where inference will meet it, inside
    the very container object v (or the first mutable container on its
    inference path); returns an undo function, or None if v offers no such
    place"""
    if isinstance(v, list) and not isinstance(v, bytearray):
        v.insert(0, _NoType())
        return lambda: v.pop(0)
    if isinstance(v, dict):
        items = list(v.items())
        v.clear()
        v['\0poison'] = _NoType()
        v.update(items)

        def undo():
            v.clear()
            v.update(items)
        return undo
    if isinstance(v, tuple):
        for x in v:
            u = _poison(x)
            if u is not None:
                return u
    return None


def _check_after_failed_inference(res, v, quick):
    """the same container object, first holding something that cannot be
    sent (inference fails), then repaired in place and sent again: the
    second attempt is judged like any first one"""
    from txdbus import marshal as M
    undo = _poison(v)
    if undo is None:
        return
    try:
        try:
            M.marshal('v', [v])
            failed = False
        except Exception:
            failed = True
    finally:
        undo()
    if not failed:
        return
    res.count('transitions')
    r2 = core.Result()
    _check_value(r2, v, True)
    for sig, d in r2.violations.items():
        res.violation(sig + '/after-failed-inference',
                      'after an attempt to send the same container object '
                      'with an unsendable element in it had failed: '
                      + d['what'], dict(d['replay'], poisoned=True),
                      size=d['size'])


def _vshape(v):
    """type-shape of a value, used in violation signatures"""
    if isinstance(v, list):
        return '[' + ','.join(_vshape(x) for x in v) + ']'
    if isinstance(v, tuple):
        return '(' + ','.join(_vshape(x) for x in v) + ')'
    if isinstance(v, dict):
        return '{' + ','.join(_vshape(k) + ':' + _vshape(x)
                              for k, x in v.items()) + '}'
    t = type(v).__name__
    if isinstance(v, int) and not isinstance(v, bool) and t == 'int':
        return 'int' if -2**31 <= v < 2**31 else 'bigint'
    return t


def _containers(pool, keypool, width=2):
    """all lists (len 0..width), tuples (len 1..width) and dicts (len
    0..width) over the pool"""
    for n in range(0, width + 1):
        for c in itertools.product(pool, repeat=n):
            yield list(c)
            if n:
                yield tuple(c)
    yield {}
    for k in keypool:
        for v in pool:
            yield {k: v}
    if width >= 2:
        for k1, k2 in itertools.combinations(keypool, 2):
            if k1 == k2:
                continue
            for v1 in pool:
                for v2 in pool:
                    yield {k1: v1, k2: v2}


def _keys():
    from txdbus import marshal as M
    return ['a', 'b', 1, 2, M.Byte(3), M.Byte(4), True, M.ObjectPath('/k'),
            1.5, 2**40, M.UInt64(9), space._OddStr('ok')]


def _level1(quick):
    atoms = _atoms()
    return list(_containers(atoms, _keys()))


def _task_values(task):
    quick, part, nparts = task
    res = core.Result()
    atoms = _atoms()
    if part == 0:
        for a in atoms:
            _check_value(res, a, quick)
            res.count('nontrivial')
        res.sample({'atoms': [repr(a) for a in atoms[:12]]})
        import collections
        for v in (collections.OrderedDict([('a', 1), ('b', 2)]),
                  collections.OrderedDict([(space._OddStr('k'), 'v')]),
                  space._SubDict({'k': 'v'}), space._SubDict({1: 2.5}),
                  space._SubList([1, 2]), space._SubList([]),
                  space._SubList(['a', space._OddStr('b')]),
                  [space._OddStr('b'), 'a'], space._NT(1, 's'),
                  [space._NT(1, 's'), space._NT(2, 't')],
                  {'k': space._NT(space._OddInt(3), space._OddStr('z'))},
                  (space._OddStr('p'), space._OddFloat(0.5))):
            _check_value(res, v, quick)
            res.count('nontrivial')
    l1 = _level1(quick)
    for i, v in enumerate(l1):
        if i % nparts == part:
            _check_value(res, v, quick)
            _check_after_failed_inference(res, v, quick)
            res.count('nontrivial')
    # depth 2: containers over (a few atoms + representative depth-1 values)
    small = _small_atoms()
    reps = [[], [1], [1, 2], ['a'], [1, 'a'], (1,), (1, 'a'), ('a', 1.5),
            {}, {'k': 1}, {'k': 'v'}, {1: 2}, [2**40], bytearray(b'z'),
            [True], (True,), {'k': [1]}, [[1]], ([1],), [(1,)]]
    if not quick:
        reps += [[1.5, 2.5], {'a': 1, 'b': 2}, {'a': 1, 'b': 'x'},
                 [{'k': 1}], ((1,),), (1, (2, 'b')), [[]], [{}], ({}, []),
                 {2: 'x', 3: 'y'}]
    pool2 = small + reps
    for i, v in enumerate(_containers(pool2, ['k', 'l', 1, 2])):
        if i % nparts == part:
            _check_value(res, v, quick)
            if i % 7 == 0:
                _check_after_failed_inference(res, v, quick)
            res.count('nontrivial')
            if i % 5000 == part:
                res.sample({'value': repr(v)[:200], 'reference_type':
                            ref_type(v)})
    # width 3 (and 4 when thorough): the homogeneity scan of a list has to
    # look at every element, not just the first two or the last
    pool_w = _small_atoms() + [[1], (1,), {'k': 1}]
    widths = (3,) if quick else (3, 4)
    n_w = 0
    for wdt in widths:
        for c in itertools.product(pool_w if wdt == 3 else pool_w[:7],
                                   repeat=wdt):
            n_w += 1
            if n_w % nparts != part:
                continue
            _check_value(res, list(c), quick)
            _check_value(res, tuple(c), quick)
            res.count('nontrivial', 2)
            if wdt == 3 and len({type(x) for x in c}) == 1 and \
                    not isinstance(c[0], (list, tuple, dict, bytearray)):
                try:
                    _check_value(res, {'a': c[0], 'b': c[1], 'c': c[2]},
                                 quick)
                except TypeError:
                    pass
    if not quick and part == 0:
        # depth 3 over a small pool
        pool3 = [1, 'a', [1], [[1]], (1, [2]), {'k': [1]}, {'k': {'l': 1}},
                 [(1, 'a')], [[], []], ({'k': (1,)},)]
        for v in _containers(pool3, ['k', 'l']):
            _check_value(res, v, quick)
            res.count('nontrivial')
    return res


def _long_values():
    """values whose inferred signature (or whose Signature payload) has a
    length on either side of 127/128 and up to the 255 limit"""
    from txdbus import marshal as M
    out = []
    for total in (126, 127, 128, 129, 200, 254, 255):
        n = total - 2
        out.append(tuple(range(n)))                      # (iii...i)
        out.append(tuple('s%d' % i for i in range(n)))   # (sss...s)
        out.append(tuple([1, 'a'] * (n // 2) + [1.5] * (n % 2)))
        if total <= 253:
            out.append([tuple(range(n - 1))])            # a(ii...i)
            out.append({'k': tuple(range(n - 5))})       # a{s(ii...i)}
        out.append(M.Signature('i' * total))
        out.append(M.Signature(('a{sv}' * 51)[:total - total % 5]))
        out.append([M.Signature('y' * total), M.Signature('')])
        out.append(('x', M.Signature('u' * total)))
    return out


def _shape_tag(v):
    k = _vshape(v)
    return k if len(k) <= 60 else '%s...%d' % (k[:40], len(k))


def _task_long(quick):
    res = core.Result()
    vals = _long_values()
    for v in vals:
        before = len(res.violations)
        _check_value(res, v, quick)
        res.count('nontrivial')
    res.sample({'long_values': len(vals),
                'example': repr(vals[0])[:80] + '...'})
    return res


def run(ctx):
    Kf, Kr = (4, 5) if ctx.quick else (5, 6)
    ctx.rule = (
        '(atoms and keys of part B include str / int / float subclasses '
        'whose str() is not their value, OrderedDict, list subclass and '
        'namedtuple values) A: every signature sequence with <= %d nodes over the full alphabet '
        'and <= %d over the reduced one, generated together with its '
        'decomposition by the reference grammar, plus deep/long families: '
        'genCompleteTypes must return the decomposition and Method/Signal '
        'must count its length. B: every Python value of depth <= 2 (3 in a '
        'small pool when thorough), width <= 2 over %d atoms (plain and '
        'wrapper values at their range boundaries) in lists, tuples and '
        'dicts, kept iff inside the claim by the reference rule; sigFromPy '
        'must give one complete type (wrappers exactly theirs) and the '
        'variant must encode, decode to an equal value and be readable by '
        'the reference decoder; the same for values whose inferred signature '
        'or Signature payload is 126..255 characters long. state = distinct signature / in-claim value; '
        'transition = one library call' % (Kf, Kr, len(_atoms())))
    ctx.bounds = {'K_full': Kf, 'K_reduced': Kr, 'value_depth': 2,
                  'value_width': 2}
    ctx.assumptions = [
        'ref_type() in this module states which values are inside the claim '
        '(first-element rule as documented upstream)']
    ctx.map(_task_split, CS.partition(Kf, Kr, ctx.jobs * 2))
    ctx.map(_task_split_special, [0])
    n = ctx.jobs * 2
    ctx.map(_task_values, [(ctx.quick, i, n) for i in range(n)])
    ctx.map(_task_long, [ctx.quick])


def replay(data):
    res = core.Result()
    if data['part'] == 'split':
        _check_split(res, data['sig'], R.split_sig(data['sig']))
    else:
        from txdbus import marshal as M
        env = {n: getattr(M, n) for n in WRAPPER_CODES}
        env['bytearray'] = bytearray
        env.update(space.ODD_ENV)
        import collections
        env['OrderedDict'] = collections.OrderedDict
        v = eval(data['value'], env)
        if data.get('poisoned'):
            _check_after_failed_inference(res, v, False)
        else:
            _check_value(res, v, False)
    return [(s, v['what']) for s, v in res.violations.items()]
