"""
C04 - message framing is independent of how the byte stream is cut into
reads, including the read that joins the end of the handshake with the first
messages, and extreme coalescing.

Stateless exploration: a schedule is a set of cut positions of a byte stream;
all schedules within the deviation bound (number of cuts) are enumerated and
each one is executed on a fresh real protocol object.
"""
import itertools

from mcx import core, fakes, space, refcodec as R
from mcx.refcodec import Var
from mcx.checks import c03

PROP = 'C04'


def pool():
    """(description dict as in C03, little-endian?) - bodies, serials and
    lengths contain CR LF, 'l' and 'B'; member lengths give every header
    padding"""
    P = []

    def add(t, fields, sig='', body=(), little=True, flags=0, serial=None,
            order=None, extra=()):
        # order / extra: the header as another implementation may legally
        # write it - fields in any order, field codes this library does not
        # know (to be ignored) at any position
        P.append(dict(type=t, fields=fields, sig=sig, body=list(body),
                      little=little, flags=flags, serial=serial,
                      order=order, extra=tuple(extra)))
    add(1, {'path': '/a', 'member': 'M'})
    add(1, {'path': '/a/b', 'member': 'Mm', 'interface': 'a.b',
            'destination': 'c.d'}, 's', ['line\r\nbreak'], little=False)
    add(2, {'reply_serial': 0x0a0d}, 'u', [0x0a0d0a0d], serial=0x0a0d)
    add(3, {'reply_serial': 7, 'error_name': 'a.b.Err'}, 's', ['lB\r\n'],
        little=False, serial=0x0d0a)
    add(4, {'path': '/s', 'member': 'Sig', 'interface': 'a.b'}, 'ay',
        [[13, 10, 108, 66] * 3], flags=1)
    add(4, {'path': '/s', 'member': 'Sigg', 'interface': 'a.b'},
        'a{sv}', [[['k', Var('s', '\r\n')]]], little=False)
    add(1, {'path': '/a', 'member': 'Mmmmm'}, 'yx', [1, 2], flags=3,
        extra=[(0, 10, Var('s', 'new\r\n'))])
    add(2, {'reply_serial': 1, 'destination': ':1.5'}, little=False,
        order=['destination', 'reply_serial'],
        extra=[(1, 127, Var('t', 0x0d0a))])
    add(1, {'path': '/a', 'member': 'Mmmmmm', 'sender': ':1.9'}, 'as',
        [['x' * 13, '\r', '\n']])
    add(4, {'path': '/', 'member': 'S', 'interface': 'a.b'}, 'v',
        [Var('(ys)', [108, 'B'])], little=False,
        order=['signature', 'interface', 'member', 'path'],
        extra=[(4, 255, Var('ay', [108, 13]))])
    return P


def encode(desc, serial):
    s = desc['serial'] or serial
    return R.encode_message(desc['type'], s, desc['fields'], desc['sig'],
                            desc['body'], little=desc['little'],
                            flags=desc['flags'],
                            field_order=desc.get('order'),
                            extra_fields=desc.get('extra', ())), s


def make_server():
    """a real server-side protocol that records delivered messages"""
    from txdbus import protocol as P, authentication as A
    from twisted.internet.protocol import Factory

    class Rec(P.BasicDBusProtocol):
        _client = False
        authenticator = A.BusAuthenticator

        def __init__(self):
            self.got = []
            self.auth_calls = 0

        def connectionAuthenticated(self):
            self.auth_calls += 1

        hook = None

        def methodCallReceived(self, m):
            self.got.append(m)
            if self.hook is not None:
                self.hook(self)
        methodReturnReceived = errorReceived = signalReceived = \
            methodCallReceived

    class B:
        uuid = fakes.GUID
    f = Factory()
    f.bus = B()
    p = Rec()
    p.factory = f
    t = fakes.FakeTransport()
    p.makeConnection(t)
    return p, t


def make_client(unix):
    from txdbus import protocol as P, authentication as A

    class Rec(P.BasicDBusProtocol):
        _client = True
        authenticator = A.ClientAuthenticator

        def __init__(self):
            self.got = []
            self.auth_calls = 0

        def connectionAuthenticated(self):
            self.auth_calls += 1

        hook = None

        def methodCallReceived(self, m):
            self.got.append(m)
            if self.hook is not None:
                self.hook(self)
        methodReturnReceived = errorReceived = signalReceived = \
            methodCallReceived

    p = Rec()
    t = fakes.FakeUnixTransport() if unix else fakes.FakeTransport()
    p.makeConnection(t)
    return p, t


SERVER_HS = b'\0AUTH ANONYMOUS\r\nBEGIN\r\n'
CLIENT_HS = b'OK ' + fakes.GUID + b'\r\n'
CLIENT_HS_UNIX = CLIENT_HS + b'AGREE_UNIX_FD\r\n'


def run_schedule(role, descs, cuts, prefix_joined, reenter=None):
    """Delivers handshake+messages cut at `cuts` (positions in the joined
    stream when prefix_joined, otherwise the handshake is delivered first on
    its own and cuts refer to the message stream).  Returns violations."""
    if role == 'server':
        p, t = make_server()
        hs = SERVER_HS
    elif role == 'client':
        p, t = make_client(False)
        hs = CLIENT_HS
    else:
        p, t = make_client(True)
        hs = CLIENT_HS_UNIX
    raws = []
    serials = []
    for i, d in enumerate(descs):
        raw, s = encode(d, 100 + i)
        raws.append(raw)
        serials.append(s)
    stream = b''.join(raws)
    if prefix_joined:
        data = hs + stream
    else:
        p.dataReceived(hs)
        data = stream
    pending = [ch for ch in space.chunks(data, cuts) if ch]
    if reenter is not None:
        # the handler of message number `reenter` reads the rest of the
        # stream itself (what happens over an in-memory transport when a
        # handler talks to the peer): the reads nest instead of following
        # one another
        def hook(proto):
            if len(proto.got) == reenter + 1:
                while pending:
                    proto.dataReceived(pending.pop(0))
        p.hook = hook
    try:
        while pending:
            p.dataReceived(pending.pop(0))
    except Exception as e:
        return [('exception-%s' % type(e).__name__,
                 'dataReceived raised %r' % (e,))], p
    out = []
    if p.auth_calls != 1:
        out.append(('auth', 'connectionAuthenticated ran %d times'
                    % p.auth_calls))
    if t.disconnecting:
        out.append(('closed', 'the connection was closed'))
    if len(p.got) != len(descs):
        out.append(('count', 'delivered %d of %d messages'
                    % (len(p.got), len(descs))))
    else:
        for i, (m, d, s) in enumerate(zip(p.got, descs, serials)):
            diffs = c03.compare_parsed(m, d, s)
            if diffs:
                out.append(('content', 'message %d: %s'
                            % (i, '; '.join(diffs))))
                break
    return out, p


def _report(res, role, idxs, cuts, joined, found, kind):
    for tag, what in found:
        res.violation(
            '%s/%s/%s/%s/%s' % (PROP, role, 'joined' if joined else 'binary',
                                kind, tag),
            '%s, messages %r, cuts %r (%s): %s'
            % (role, idxs, list(cuts), kind, what),
            {'role': role, 'msgs': idxs, 'cuts': list(cuts),
             'joined': joined}, size=len(idxs) * 10 + len(cuts))


def _boundaries(raws):
    b, p = [], 0
    for r in raws:
        b.append(p)
        p += len(r)
    b.append(p)
    return b


def _task_binary(task):
    quick, part, nparts = task
    res = core.Result()
    P = pool()
    streams = []
    for n in (1, 2, 3):
        for idxs in itertools.product(range(len(P)), repeat=n):
            if n == 3 and quick and (idxs[0] * 7 + idxs[1] * 3 + idxs[2]) % 10:
                continue
            streams.append(idxs)
    n_exec = 0
    for si, idxs in enumerate(streams):
        if si % nparts != part:
            continue
        descs = [P[i] for i in idxs]
        raws = [encode(d, 100 + i)[0] for i, d in enumerate(descs)]
        total = sum(len(r) for r in raws)
        bounds = _boundaries(raws)
        scheds = [((), 'one-read')]
        scheds += [((c,), 'single-cut') for c in range(1, total)]
        scheds.append((tuple(range(1, total)), 'bytewise'))
        if len(idxs) <= 2:
            # every pair of cuts with both in a fixed header or near a
            # message boundary (all pairs when thorough)
            if quick:
                near = [p for p in range(1, total)
                        if any(0 <= p - b <= 16 or abs(p - b) <= 8
                               for b in bounds)]
            else:
                near = list(range(1, total))
            scheds += [(c, 'two-cuts')
                       for c in itertools.combinations(near, 2)]
        if not quick and len(idxs) == 2:
            near3 = [p for p in range(1, total)
                     if any(abs(p - b) <= 5 for b in bounds[1:-1])
                     or any(0 <= p - b <= 17 for b in bounds[:-1])]
            scheds += [(c, 'three-cuts')
                       for c in itertools.combinations(near3, 3)]
        for cuts, kind in scheds:
            found, _ = run_schedule('server', descs, cuts, False)
            n_exec += 1
            res.setmax('max_deviations', len(cuts) if kind != 'bytewise'
                       else 0)
            if found:
                _report(res, 'server', list(idxs), cuts, False, found, kind)
        if si % 97 == 0:
            res.sample({'messages': list(idxs), 'stream_bytes': total,
                        'schedules': len(scheds)})
        res.count('states')
        res.outcome(total)
    res.count('transitions', n_exec)
    res.count('evaluations', n_exec)
    res.count('traces', n_exec)
    res.count('nontrivial', n_exec)
    return res


def _task_joined(task):
    quick, role = task
    res = core.Result()
    P = pool()
    hs = {'server': SERVER_HS, 'client': CLIENT_HS,
          'client-unix': CLIENT_HS_UNIX}[role]
    n_exec = 0
    streams = [(i,) for i in range(len(P))] + \
        [(i, j) for i in range(len(P)) for j in range(len(P))
         if (not quick) or (i + 2 * j) % 5 == 0]
    for idxs in streams:
        descs = [P[i] for i in idxs]
        raws = [encode(d, 100 + i)[0] for i, d in enumerate(descs)]
        total = len(hs) + sum(len(r) for r in raws)
        scheds = [((), 'one-read')]
        scheds += [((c,), 'single-cut') for c in range(1, total)]
        scheds.append((tuple(range(1, total)), 'bytewise'))
        lim = len(hs) + (24 if quick else 40)
        near = list(range(1, min(lim, total)))
        scheds += [(c, 'two-cuts') for c in itertools.combinations(near, 2)]
        for cuts, kind in scheds:
            found, _ = run_schedule(role, descs, cuts, True)
            n_exec += 1
            if found:
                _report(res, role, list(idxs), cuts, True, found, kind)
        res.count('states')
    res.sample({'role': role, 'handshake': hs.decode('latin-1'),
                'then_messages': list(streams[3])})
    res.count('transitions', n_exec)
    res.count('evaluations', n_exec)
    res.count('traces', n_exec)
    res.count('nontrivial', n_exec)
    return res


def _task_reentrant(task):
    """nested reads: every pair / triple of messages, every single cut, and
    for each message of the stream the schedule in which its handler reads
    all that is left"""
    quick, part, nparts = task
    res = core.Result()
    P = pool()
    n = len(P)
    streams = list(itertools.product(range(n), repeat=2))
    streams += [t for t in itertools.product(range(n), repeat=3)
                if (t[0] * 7 + t[1] * 3 + t[2]) % (10 if quick else 2) == 0]
    for si, idxs in enumerate(streams):
        if si % nparts != part:
            continue
        descs = [P[i] for i in idxs]
        raws = [encode(d, 100 + i)[0] for i, d in enumerate(descs)]
        total = sum(len(r) for r in raws)
        bounds = _boundaries(raws)
        res.count('states')
        for role in (('server',) if quick else ('server', 'client-unix')):
            for j in range(len(idxs) - 1):
                # (cuts behind the end of message j: its handler runs
                # while later bytes are still to come)
                cutsets = [()] + [(c,) for c in range(1, total)
                                  if c > bounds[j + 1]]
                for cuts in cutsets:
                    found, _ = run_schedule(role, descs, cuts, False,
                                            reenter=j)
                    res.count('transitions')
                    res.count('evaluations')
                    res.count('traces')
                    res.count('nontrivial')
                    res.outcome((role, len(idxs), j, len(cuts),
                                 tuple(t for t, _ in found)))
                    for tag, what in found:
                        res.violation(
                            '%s/%s/reentrant/%s' % (PROP, role, tag),
                            '%s, messages %r, cuts %r, the handler of '
                            'message %d reads the rest itself: %s'
                            % (role, list(idxs), list(cuts), j, what),
                            {'role': role, 'msgs': list(idxs),
                             'cuts': list(cuts), 'joined': False,
                             'reenter': j},
                            size=len(idxs) * 10 + len(cuts))
    return res


def _task_joined_descriptors(_):
    """messages that carry descriptors, their first bytes in the read that
    completes the handshake, the descriptors announced before that read
    (what a UNIX transport does for one sendmsg): content as sent"""
    from mcx.checks import c20
    res = core.Result()
    for idxs in ((1,), (2,), (5,), (1, 3), (7, 1), (8, 1), (1, 8, 2)):
        msgs = c20._mk(idxs)
        nf = sum(len(f) for (_, _, f) in msgs)
        first = len(msgs[0][2])
        for little in (True, False):
            for early in sorted({first, nf, 1} - {0}):
                if early > nf:
                    continue
                for joined in (True, False):
                    order = tuple(['F'] * nf + ['C'])
                    found = c20.receiver_case(idxs, (), order, little, None,
                                              early=early, joined=joined)
                    res.count('states')
                    res.count('transitions')
                    res.count('evaluations')
                    res.count('traces')
                    res.count('nontrivial')
                    for tag, what in found:
                        res.violation(
                            '%s/joined-descriptors/%s' % (PROP, tag),
                            'messages %r, %d descriptor(s) announced before '
                            'the read that completes the handshake%s: %s'
                            % ([c20.BODIES[i][0] for i in idxs], early,
                               ' and carries the first message bytes'
                               if joined else '', what),
                            {'fdjoin': True}, size=len(idxs))
    # nested reads with descriptors: the handler of message j reads what is
    # still to come (one read per message, and one read for all the rest)
    for idxs in ((1, 1), (1, 3), (2, 1), (7, 1, 2), (1, 8, 2), (5, 8, 1),
                 (9, 1), (1, 10)):
        msgs = c20._mk(idxs)
        for little in (True, False):
            lens = [len(R.encode_message(
                1, 50 + k, c20._fields(1, len(fds)), sig, vals,
                little=little, fds=[])) for k, (sig, vals, fds)
                in enumerate(msgs)]
            ends = list(itertools.accumulate(lens))
            for cuts in (tuple(ends[:-1]), (ends[0],)):
                # each message's descriptors right before the read holding
                # it
                order = []
                bounds = list(cuts) + [ends[-1]]
                k = 0
                for b in bounds:
                    while k < len(msgs) and ends[k] <= b:
                        order += ['F'] * len(msgs[k][2])
                        k += 1
                    order.append('C')
                for j in range(len(idxs) - 1):
                    found = c20.receiver_case(idxs, cuts, tuple(order),
                                              little, None, nested_at=j)
                    res.count('states')
                    res.count('transitions')
                    res.count('evaluations')
                    res.count('traces')
                    res.count('nontrivial')
                    for tag, what in found:
                        res.violation(
                            '%s/nested-descriptors/%s' % (PROP, tag),
                            'messages %r read at %r, everything behind '
                            'message %d read from inside its handler: %s'
                            % ([c20.BODIES[i][0] for i in idxs],
                               list(cuts), j, what),
                            {'fdjoin': True}, size=len(idxs))
    return res


def _task_auth_nested(_):
    """the application's connectionAuthenticated hook talks to its peer
    over an in-memory transport: the answer (a message X) is read while the
    line that completed the handshake is still being handled.  With the
    last handshake line cut anywhere, and with a message M behind it in the
    same read: everything is delivered, in the order the bytes arrived (M
    was there before X)"""
    res = core.Result()
    P = pool()
    for role in ('server', 'client', 'client-unix'):
        hs = SERVER_HS if role == 'server' else \
            CLIENT_HS_UNIX if role == 'client-unix' else CLIENT_HS
        for xi, mi in ((0, 1), (3, 4), (5, 2), (7, 8)):
            X, sx = encode(P[xi], 700)
            M_, sm = encode(P[mi], 701)
            cases = [('cut', k, False) for k in range(1, len(hs))] + \
                [('joined', 0, True)] + \
                [('cut+joined', k, True)
                 for k in (1, len(hs) // 2, len(hs) - 2, len(hs) - 1)]
            for kind, k, joined in cases:
                res.count('states')
                res.count('transitions', 3)
                res.count('evaluations')
                res.count('traces')
                res.count('nontrivial')
                try:
                    p, t = make_server() if role == 'server' else \
                        make_client(role == 'client-unix')
                    fired = []

                    def on_auth(p=p, fired=fired, X=X):
                        fired.append(1)
                        p.auth_calls += 1
                        p.dataReceived(X)
                    p.connectionAuthenticated = on_auth
                    tail = M_ if joined else b''
                    if k:
                        p.dataReceived(hs[:k])
                        p.dataReceived(hs[k:] + tail)
                    else:
                        p.dataReceived(hs + tail)
                    got = [m.serial for m in p.got]
                    want = ([sm] if joined else []) + [sx]
                    ok = got == want and fired == [1]
                    what = 'delivered serials %r, expected %r (hook ran ' \
                        '%d times)' % (got, want, len(fired))
                except Exception as e:
                    ok = False
                    what = 'raised %r' % (e,)
                if not ok:
                    res.violation(
                        '%s/%s/auth-nested/%s' % (PROP, role, kind),
                        '%s: handshake cut at %d%s, the authentication hook '
                        'reads one more message: %s'
                        % (role, k, ', a message behind it in the same read'
                           if joined else '', what), {'authnested': True},
                        size=k)
                    break
    return res


def _task_two_connections(task):
    """two connections in one process, each stream cut once, their reads
    interleaved in every order: a connection receives exactly its own
    messages whatever the other one is in the middle of"""
    quick, part, nparts = task
    res = core.Result()
    P = pool()
    n_exec = 0
    pairs = [(i, j) for i in range(len(P)) for j in range(len(P))]
    for pi, (i, j) in enumerate(pairs):
        if pi % nparts != part:
            continue
        ra = encode(P[i], 300)[0]
        rb = encode(P[j], 400)[0]
        cuts_a = range(0, len(ra), 1 if not quick else 3)
        cuts_b = [0, 1, 7, 16, len(rb) // 2, len(rb) - 1] if quick \
            else range(0, len(rb), 2)
        for roles in (('server', 'server'), ('client', 'server')):
            for ca in cuts_a:
                for cb in cuts_b:
                    a_chunks = [x for x in (ra[:ca], ra[ca:]) if x]
                    b_chunks = [x for x in (rb[:cb], rb[cb:]) if x]
                    for order in space.interleavings(
                            [('a', k) for k in range(len(a_chunks))],
                            [('b', k) for k in range(len(b_chunks))]):
                        pa, ta = make_server() if roles[0] == 'server' \
                            else make_client(False)
                        pb, tb = make_server()
                        try:
                            # handshakes: A first half, B whole, A second half
                            hsa = SERVER_HS if roles[0] == 'server' \
                                else CLIENT_HS
                            pa.dataReceived(hsa[:5])
                            pb.dataReceived(SERVER_HS)
                            pa.dataReceived(hsa[5:])
                            for who, k in order:
                                if who == 'a':
                                    pa.dataReceived(a_chunks[k])
                                else:
                                    pb.dataReceived(b_chunks[k])
                            err = None
                        except Exception as e:
                            err = '%s: %s' % (type(e).__name__, e)
                        n_exec += 1
                        ok = err is None and len(pa.got) == 1 and \
                            len(pb.got) == 1 and \
                            not c03.compare_parsed(pa.got[0], P[i],
                                                   P[i]['serial'] or 300) \
                            and not c03.compare_parsed(pb.got[0], P[j],
                                                       P[j]['serial'] or 400)
                        if not ok:
                            res.violation(
                                '%s/two-connections/%s' % (
                                    PROP, (err or 'wrong-delivery')
                                    .split(':')[0]),
                                'connections A (%s, message %d cut at %d) and '
                                'B (message %d cut at %d), reads in order %r:'
                                ' A received %d message(s), B %d; %s'
                                % (roles[0], i, ca, j, cb,
                                   [w for w, _ in order], len(pa.got),
                                   len(pb.got), err or ''),
                                {'two': [i, j, ca, cb,
                                         [list(o) for o in order],
                                         list(roles)]},
                                size=4)
        res.count('states')
    res.count('transitions', n_exec)
    res.count('evaluations', n_exec)
    res.count('traces', n_exec)
    res.count('nontrivial', n_exec)
    res.sample({'two_connections': 'every pair of pool messages, each cut '
                'once, all interleavings of the four reads'})
    return res


def _task_coalesce(task):
    n_msgs, cut = task
    res = core.Result()
    P = pool()
    descs = [P[i % len(P)] for i in range(n_msgs)]
    # distinct serials so that order is checked
    descs = [dict(d, serial=None) for d in descs]
    raws = [encode(d, 1000 + i)[0] for i, d in enumerate(descs)]
    total = sum(len(r) for r in raws)
    cuts = () if not cut else (total // 2 + 3,)
    for role, joined in (('server', False), ('server', True),
                         ('client', True)):
        p = None
        with core.Watchdog(300):
            try:
                if role == 'server':
                    p, t = make_server()
                    hs = SERVER_HS
                else:
                    p, t = make_client(False)
                    hs = CLIENT_HS
                data = b''.join(raws)
                if joined:
                    data = hs + data
                    cc = tuple(c + len(hs) for c in cuts)
                else:
                    p.dataReceived(hs)
                    cc = cuts
                for ch in space.chunks(data, cc):
                    p.dataReceived(ch)
                err = None
            except core.ExecutionTimeout:
                err = 'did not finish'
            except BaseException as e:
                err = '%s: %s' % (type(e).__name__, str(e)[:80])
        res.count('transitions')
        res.count('evaluations')
        res.count('traces')
        res.count('nontrivial')
        ok = err is None and len(p.got) == n_msgs and \
            [m.serial for m in p.got] == list(range(1000, 1000 + n_msgs))
        if not ok:
            res.violation(
                '%s/coalesce/%s/%s' % (PROP, role,
                                       (err or 'lost').split(':')[0]),
                '%d messages in %s read(s) (%s%s): %s; %d delivered'
                % (n_msgs, len(cc) + 1, role,
                   ', joined to the handshake' if joined else '',
                   err or 'wrong sequence',
                   len(p.got) if p is not None else -1),
                {'coalesce': n_msgs, 'cut': cut}, size=n_msgs)
    res.count('states')
    res.sample({'coalesced_messages': n_msgs, 'bytes': total})
    return res


def run(ctx):
    q = ctx.quick
    ctx.rule = (
        'streams: every sequence of 1..2 messages (and %s of 3) from a pool '
        'of %d messages (4 types, both byte orders, bodies/serials/lengths '
        'containing CR LF, l, B; every header padding; three with unknown '
        'header-field codes 10 / 127 / 255 and unusual field orders). '
        'schedules per stream:'
        ' one read, every single cut, byte-at-a-time, every pair of cuts %s'
        '%s. The same messages appended to the final handshake bytes for the '
        'server role (AUTH ANONYMOUS/BEGIN) and the client role (OK; OK + '
        'AGREE_UNIX_FD on a UNIX transport) under no cut, every single cut, '
        'byte-at-a-time and every pair of cuts in the handshake and the '
        'first %d message bytes. Extreme coalescing: 3000%s messages in one '
        'and in two reads. Oracle: the sequence of message callbacks equals '
        'the sent sequence (type, serial, flags, header fields, body). Two '
        'connections in one process: every pair of pool messages, each cut '
        'once, every interleaving of the reads, handshakes interleaved too. '
        'Nested reads: for every pair (and a slice of the triples) of '
        'messages and every single cut behind message j, the handler of '
        'message j reads the rest of the stream itself. '
        'state = stream, transition = one schedule executed on a fresh real '
        'protocol' % ('a tenth' if q else 'all', len(pool()),
                      'near message boundaries / inside fixed headers'
                      if q else 'anywhere',
                      '' if q else ', every triple near boundaries',
                      24 if q else 40, '' if q else ' and 20000'))
    ctx.bounds = {'max_cuts': 2 if q else 3, 'pool': len(pool())}
    ctx.assumptions = ['a read delivers a non-empty chunk; an empty chunk is '
                       'never delivered']
    n = ctx.jobs * 4
    ctx.map(_task_binary, [(q, i, n) for i in range(n)])
    ctx.map(_task_joined, [(q, r) for r in ('server', 'client',
                                            'client-unix')])
    ctx.map(_task_two_connections, [(q, i, n) for i in range(n)])
    ctx.map(_task_reentrant, [(q, i, n) for i in range(n)])
    ctx.map(_task_joined_descriptors, [0])
    ctx.map(_task_auth_nested, [0])
    co = [(3000, False), (3000, True), (1200, False)]
    if not q:
        co += [(20000, False), (20000, True)]
    ctx.map(_task_coalesce, co)


def replay(data):
    if 'fdjoin' in data:
        res = _task_joined_descriptors(0)
        return [(s, v['what']) for s, v in res.violations.items()]
    if 'authnested' in data:
        res = _task_auth_nested(0)
        return [(s, v['what']) for s, v in res.violations.items()]
    if 'two' in data:
        res = _task_two_connections((True, 0, 1))
        return [(s, v['what']) for s, v in res.violations.items()]
    if 'coalesce' in data:
        res = _task_coalesce((data['coalesce'], data['cut']))
        return [(s, v['what']) for s, v in res.violations.items()]
    P = pool()
    descs = [P[i] for i in data['msgs']]
    found, _ = run_schedule(data['role'], descs, tuple(data['cuts']),
                            data['joined'], reenter=data.get('reenter'))
    return [('%s/%s/%s' % (PROP, data['role'], t), w) for t, w in found]
