"""
C02 - the bytes are exactly the D-Bus wire format, in both directions.

Same input space as C01, but the oracle is the reference codec written from
the specification: the library's bytes must equal the reference encoding
byte for byte, and the reference encoding (what another implementation would
send, including variants holding types txdbus's inference never produces)
must decode to the encoded value.  Plus the alignment rule in isolation.
"""
import itertools

from mcx import core, space, codec_space as CS, refcodec as R
from mcx.refcodec import Var

PROP = 'C02'


def encode_case(res, sig, ts, refvals, style, le, off):
    from txdbus import marshal as M
    res.count('evaluations')
    res.count('transitions')
    tx = [space.to_tx(t, v, style) for t, v in zip(ts, refvals)]
    rep = {'dir': 'encode', 'sig': sig, 'values': repr(refvals),
           'style': style, 'little': le, 'offset': off}
    want = R.encode(ts, refvals, off, le)
    try:
        n, chunks = M.marshal(sig, tx, off, le)
        got = b''.join(chunks)
    except Exception as e:
        res.violation('%s/encode-raises/%s/%s' % (PROP, type(e).__name__, sig),
                      'marshal(%r, %r, %d, %s) raised %r'
                      % (sig, tx, off, le, e), rep, size=len(sig))
        return
    if got != want:
        res.violation('%s/bytes/%s' % (PROP, sig),
                      'marshal(%r, %r, offset %d, little=%s) = %s, the '
                      'specification says %s'
                      % (sig, tx, off, le, got.hex(), want.hex()), rep,
                      size=len(sig))


def decode_case(res, sig, ts, refvals, le, off):
    from txdbus import marshal as M
    res.count('evaluations')
    res.count('transitions')
    rep = {'dir': 'decode', 'sig': sig, 'values': repr(refvals),
           'little': le, 'offset': off}
    data = R.encode(ts, refvals, off, le)
    buf = bytes([CS.FILL]) * off + data
    want = R.as_plain(ts, refvals)
    try:
        m, out = M.unmarshal(sig, buf, off, le)
    except Exception as e:
        res.violation('%s/decode-raises/%s/%s' % (PROP, type(e).__name__, sig),
                      'unmarshal(%r, <reference encoding of %r>, %d, %s) '
                      'raised %r' % (sig, refvals, off, le, e), rep,
                      size=len(sig))
        return
    if m != len(data):
        res.violation('%s/decode-consumed/%s' % (PROP, sig),
                      'reference encoding of %r under %r is %d bytes, '
                      'decoder consumed %d' % (refvals, sig, len(data), m),
                      rep, size=len(sig))
    elif not R.same(out, want):
        res.violation('%s/decode-value/%s' % (PROP, sig),
                      'reference encoding of %r under %r (offset %d, '
                      'little=%s) decoded to %r' % (want, sig, off, le, out),
                      rep, size=len(sig))


def _task(task):
    res = core.Result()
    nseq = 0
    for ts in CS.cases_of(task):
        nseq += 1
        sig = space.sig_of(ts)
        styles = CS.styles_for(ts)
        nt = space.nontrivial(ts)
        for vals in space.assignments(ts):
            refvals = space.thaw(vals)
            res.count('states')
            if nt:
                res.count('nontrivial')
            for le in (True, False):
                for off in range(8):
                    for style in styles:
                        encode_case(res, sig, ts, refvals, style, le, off)
                    decode_case(res, sig, ts, refvals, le, off)
        if nseq % 400 == 1:
            res.sample({'signature': sig, 'values': repr(refvals)[:200],
                        'reference_bytes_le_off0':
                            R.encode(ts, refvals, 0, True).hex()[:120]})
        res.outcome(sig if len(res.outcomes) < 300 else '')
    res.count('signatures', nseq)
    return res


def _task_special(_):
    from txdbus import marshal as M
    res = core.Result()
    for sig, refvals in CS.deep_families():
        ts = R.parse_sig(sig)
        for le in (True, False):
            for off in range(8):
                for style in CS.styles_for(ts):
                    encode_case(res, sig, ts, refvals, style, le, off)
                decode_case(res, sig, ts, refvals, le, off)
        res.count('states')
        res.count('nontrivial')
    # foreign variants: any complete type may sit in a variant
    for var in space.FOREIGN_VARIANT_VALUES + space.VARIANT_VALUES:
        for sig, refvals in (('v', [var]), ('yv', [1, var]),
                             ('av', [[var, var]]), ('(yv)t', [[2, var], 3]),
                             ('a{sv}', [[['k', var]]])):
            ts = R.parse_sig(sig)
            for le in (True, False):
                for off in range(8):
                    decode_case(res, sig, ts, refvals, le, off)
            res.count('states')
            res.count('nontrivial')
    res.count('foreign_variants', len(space.FOREIGN_VARIANT_VALUES))
    # descriptors: the value on the wire is the index into the out-of-band
    # list, a UINT32 in the requested byte order
    for sig, refvals in (('h', [5]), ('hh', [7, 9]), ('hhh', [10, 11, 12]),
                         ('shs', ['a', 3, 'b']), ('ah', [[4, 5, 6]]),
                         ('(hs)h', [[8, 'x'], 2]), ('a{sh}', [[['k', 11],
                                                               ['l', 12]]]),
                         ('yah', [1, []]), ('hxh', [1, 2, 3])):
        ts = R.parse_sig(sig)
        tx = R.as_plain(ts, refvals)
        for le in (True, False):
            for off in range(8):
                res.count('evaluations')
                res.count('transitions', 2)
                rep = {'dir': 'fds', 'sig': sig, 'values': repr(refvals),
                       'little': le, 'offset': off}
                want_fds = []
                want = R.encode(ts, refvals, off, le, fds=want_fds)
                try:
                    oob = []
                    n, chunks = M.marshal(sig, tx, off, le, oob)
                    got = b''.join(chunks)
                    if got != want or oob != want_fds:
                        res.violation(
                            '%s/fd-bytes/%s' % (PROP, sig),
                            'marshal(%r, %r, %d, little=%s) = %s with '
                            'descriptors %r; the specification gives %s with '
                            '%r' % (sig, tx, off, le, got.hex(), oob,
                                    want.hex(), want_fds), rep, size=len(sig))
                    m, out = M.unmarshal(sig, bytes([CS.FILL]) * off + want,
                                         off, le, list(want_fds))
                    if m != len(want) or not R.same(out, tx):
                        res.violation(
                            '%s/fd-decode/%s' % (PROP, sig),
                            'reference encoding of %r under %r (offset %d, '
                            'little=%s) with descriptors %r decoded to %r'
                            % (tx, sig, off, le, want_fds, out), rep,
                            size=len(sig))
                except Exception as e:
                    res.violation('%s/fd-raises/%s/%s'
                                  % (PROP, type(e).__name__, sig),
                                  'descriptor case %r raised %r' % (sig, e),
                                  rep, size=len(sig))
        res.count('states')
        res.count('nontrivial')
    # descriptors inside variants: the library has no way of sending them,
    # other implementations do (an 'h' in an a{sv} options dictionary)
    for sig, refvals in (('v', [Var('h', 5)]),
                         ('a{sv}', [[['fd', Var('h', 7)],
                                     ['n', Var('s', 'x')]]]),
                         ('hv', [3, Var('(sh)', ['y', 4])]),
                         ('av', [[Var('h', 8), Var('ah', [9, 10])]])):
        ts = R.parse_sig(sig)
        tx = R.as_plain(ts, refvals)
        for le in (True, False):
            for off in range(8):
                res.count('evaluations')
                res.count('transitions')
                rep = {'dir': 'fds', 'sig': sig, 'values': repr(refvals),
                       'little': le, 'offset': off}
                want_fds = []
                want = R.encode(ts, refvals, off, le, fds=want_fds)
                try:
                    m, out = M.unmarshal(sig, bytes([CS.FILL]) * off + want,
                                         off, le, list(want_fds))
                    if m != len(want) or not R.same(out, tx):
                        res.violation(
                            '%s/fd-in-variant/%s' % (PROP, sig),
                            'reference encoding of %r under %r (offset %d, '
                            'little=%s) with descriptors %r decoded to %r'
                            % (tx, sig, off, le, want_fds, out), rep,
                            size=len(sig))
                except Exception as e:
                    res.violation('%s/fd-in-variant-raises/%s/%s'
                                  % (PROP, type(e).__name__, sig),
                                  'descriptor inside a variant, %r: %r'
                                  % (sig, e), rep, size=len(sig))
        res.count('states')
        res.count('nontrivial')
    # the alignment rule in isolation: every type code x offsets 0..15
    codes = dict(R.ALIGN)
    codes['header'] = 8
    for code, align in sorted(codes.items()):
        for off in range(16):
            res.count('evaluations')
            res.count('transitions')
            try:
                p = M.pad[code](off)
            except Exception as e:
                p = e
            want = b'\0' * ((-off) % align)
            if p != want:
                res.violation('%s/pad/%s' % (PROP, code),
                              'pad[%r](%d) = %r, the specification requires '
                              '%d zero bytes' % (code, off, p, len(want)),
                              {'dir': 'pad', 'code': code, 'offset': off},
                              size=1)
    res.count('states', len(codes) * 16)
    return res


def _task_messages(_):
    """the same rules for bodies inside whole messages: the byte order a
    message declares is the byte order of its body - for messages the
    library builds, and for messages of either byte order after a trip
    through the built-in bus (which parses every message and serialises it
    again with the sender stamped)"""
    from txdbus import message as MSG
    from mcx.checks import c03
    res = core.Result()
    fams = [(sig, vals) for sig, vals in CS.deep_families()
            if len(sig) < 200 and 'h' not in sig][:40]
    fams += [('us', [0x01020304, 'hello']), ('xd', [2**40 + 5, 1.5]),
             ('a{sv}', [[['k', Var('u', 0x0a0b0c0d)]]]),
             ('a{sv}v', [[['p', Var('o', '/a/b')], ['y', Var('y', 200)]],
                         Var('(tg)', [2**40, 'ai'])]),
             ('(qn)at', [[0x0102, -2], [1, 2**63]]), ('as', [['x', 'yz']])]
    for sig, refvals in fams:
        ts = R.parse_sig(sig)
        tx = [space.to_tx(t, v, 'wrapped') for t, v in zip(ts, refvals)]
        res.count('states')
        res.count('nontrivial')
        rep = {'dir': 'message', 'sig': sig, 'values': repr(refvals)}
        # built by the library
        res.count('evaluations')
        res.count('transitions')
        try:
            m = MSG.MethodCallMessage('/p', 'M', signature=sig, body=tx)
            p = R.parse_message(m.rawMessage)
            if p['raw_body'] != R.encode(ts, refvals, 0, p['little']):
                res.violation('%s/message/built/%s' % (PROP, sig),
                              'a call with body %r %r: the body bytes are not '
                              'the %s-endian encoding the header announces'
                              % (sig, tx, 'little' if p['little'] else 'big'),
                              rep, size=len(sig))
        except Exception as e:
            res.violation('%s/message/built-raises/%s' % (PROP,
                                                          type(e).__name__),
                          'building / reading a call with body %r raised %r'
                          % (sig, e), rep, size=len(sig))
        # received by the bus in either byte order and handed on; the
        # header as other implementations may legally write it: plain, the
        # fields in reverse order (signature first), an unknown field (code
        # 10..200, any type) first / in the middle / last
        shapes = [('plain', None, ()),
                  ('reversed', ['signature', 'destination', 'interface',
                                'member', 'path'], ()),
                  ('unknown-first', None, ((0, 10, Var('s', 'x')),)),
                  ('unknown-middle', None, ((2, 127, Var('t', 5)),)),
                  ('unknown-last', None, ((5, 200, Var('ay', [1, 2])),)),
                  ('unknown-twice', None, ((0, 11, Var('u', 1)),
                                           (3, 12, Var('(ss)', ['a',
                                                                'b'])))),
                  ]
        for si, (shape, forder, extra) in enumerate(shapes):
          for le in (True, False):
            res.count('evaluations')
            res.count('transitions', 2)
            order = ('little' if le else 'big') + \
                ('' if shape == 'plain' else '/' + shape)

            def raw_for(dest, le=le, forder=forder, extra=extra):
                return R.encode_message(
                    1, 77, {'path': '/p', 'member': 'M', 'interface': 'a.b',
                            'destination': dest}, sig, refvals, little=le,
                    field_order=forder, extra_fields=extra)
            try:
                m = MSG.parseMessage(raw_for(':1.9'), [])
                if not R.same(m.body, R.as_plain(ts, refvals)) or \
                        m.destination != ':1.9' or m.member != 'M':
                    res.violation('%s/message/parse/%s/%s' % (PROP, order,
                                                              sig),
                                  'a %s call with body %r %r was '
                                  'read as %r (member %r, destination %r)'
                                  % (order, sig, refvals, m.body,
                                     getattr(m, 'member', None),
                                     getattr(m, 'destination', None)), rep,
                                  size=len(sig))
                    continue
                if shape != 'plain' and (len(fams) + si) % 5 != \
                        fams.index((sig, refvals)) % 5:
                    continue
                sender, p, n = c03.forwarded(raw_for)
                if p is None:
                    raise R.RefError('%d messages came out of the bus' % n)
                if p['raw_body'] != R.encode(ts, refvals, 0, p['little']) \
                        or p['body'] != refvals:
                    res.violation(
                        '%s/message/forwarded/%s/%s' % (PROP, order, sig),
                        'a %s call with body %r %r came out of the '
                        'bus announcing %s-endian and carrying %r (%s)'
                        % (order, sig, refvals,
                           'little' if p['little'] else 'big', p['body'],
                           p['raw_body'].hex()[:120]), rep, size=len(sig))
            except R.RefError as e:
                c03._FWD.clear()
                res.violation('%s/message/forwarded-malformed/%s'
                              % (PROP, order),
                              'a %s call with body %r %r came out of '
                              'the bus malformed: %s' % (order, sig, refvals,
                                                         e), rep,
                              size=len(sig))
            except Exception as e:
                c03._FWD.clear()
                res.violation('%s/message/raises/%s' % (PROP,
                                                        type(e).__name__),
                              'a %s call with body %r raised %r'
                              % (order, sig, e), rep, size=len(sig))
    # the same reference bytes as they arrive over a connection: two
    # messages (consecutive bodies of the list, opposite byte orders), the
    # first read ending at every position inside the second message
    from mcx.checks import c04
    for i, (sig, refvals) in enumerate(fams):
        sig2, refvals2 = fams[(i + 1) % len(fams)]
        for le in (True, False):
            res.count('states')
            res.count('nontrivial')
            m1 = R.encode_message(1, 90, {'path': '/p', 'member': 'A'},
                                  sig, refvals, little=le)
            m2 = R.encode_message(4, 91, {'path': '/p', 'member': 'B',
                                          'interface': 'a.b'}, sig2,
                                  refvals2, little=not le)
            want = [R.as_plain(R.parse_sig(sig), refvals),
                    R.as_plain(R.parse_sig(sig2), refvals2)]
            step = 1 if len(m2) < 400 else 7
            for k in list(range(0, len(m2) + 1, step)) + [len(m2)]:
                res.count('evaluations')
                res.count('transitions', 2)
                try:
                    p_, _t = c04.make_server()
                    p_.dataReceived(c04.SERVER_HS)
                    p_.dataReceived(m1 + m2[:k])
                    if k < len(m2):
                        p_.dataReceived(m2[k:])
                    got = [m.body for m in p_.got]
                    ok = len(got) == 2 and R.same(got[0], want[0]) and \
                        R.same(got[1], want[1])
                    what = 'delivered %d message(s) with bodies %r' % (
                        len(got), got) if not ok else ''
                except Exception as e:
                    ok = False
                    what = 'raised %r' % (e,)
                if not ok:
                    res.violation(
                        '%s/message/stream/%s' % (PROP, sig),
                        'two messages (bodies %r and %r, %s-endian then the '
                        'other) arriving as one read of the first and %d '
                        'bytes of the second, then the rest: %s'
                        % (sig, sig2, 'little' if le else 'big', k, what),
                        rep, size=len(sig))
                    break
    # the encoding of a call is a function of that call alone: sequences of
    # calls (with and without descriptor arguments) issued one after the
    # other through one connection, each read by the reference parser
    from mcx.checks import c20
    seqs = [(i,) for i in range(c20.NSEND)] + \
        list(itertools.product(range(c20.NSEND), repeat=2)) + \
        [(8, 1, 1, 5, 8), (1, 8, 1), (5, 3, 8, 1)]
    for idxs in seqs:
        res.count('states')
        res.count('evaluations')
        res.count('transitions', len(idxs))
        res.count('nontrivial')
        for tag, what in c20.sender_case(idxs):
            res.violation('%s/call-sequence/%s' % (PROP, tag),
                          'calls with bodies %r issued one after the other: '
                          '%s' % ([c20.BODIES[i][0] for i in idxs], what),
                          {'dir': 'message'}, size=len(idxs))
    return res


def _task_scale(task):
    """element counts, string and signature lengths around one-byte,
    page-size and two-byte limits, both directions against the reference"""
    from mcx import scale
    from mcx.checks import c01
    quick, kind = task
    res = core.Result()
    if kind in ('g', 'v-long-sig'):
        ns = [n for n in (126, 127, 128, 129, 130, 191, 192, 200, 254, 255)]
    else:
        ns = scale.ladder(8193 if quick else 65537)
    for n in ns:
        sig, refvals = scale_case(kind, n)
        ts = R.parse_sig(sig)
        res.count('states')
        res.count('nontrivial')
        res.count('scale_cases')
        for le in (True, False):
            for off in (0, 3):
                r0 = core.Result()
                encode_case(r0, sig, ts, refvals, 'list', le, off)
                decode_case(r0, sig, ts, refvals, le, off)
                for s, v in r0.violations.items():
                    res.violation(s[:60] + '/n=%d' % n, v['what'][:300]
                                  + '...', {'scale': [kind, n, le, off]},
                                  size=n)
                for k, c in r0.counts.items():
                    if k != 'violating_cases':
                        res.count(k, c)
    return res


def scale_case(kind, n):
    from mcx.checks import c01
    return c01.scale_values(kind, n)


def run(ctx):
    Kf, Kr = (3, 4) if ctx.quick else (4, 5)
    ctx.rule = (
        'the input space of C01 (sequences <= %d nodes full alphabet, <= %d '
        'reduced; boundary values; styles; both byte orders; offsets 0..7). '
        'encode: library bytes == reference encoder bytes. decode: the '
        'reference bytes decode to the value with exactly their length '
        'consumed, including %d variants holding types the library never '
        'infers. alignment: all 17 type codes + header x offsets 0..15. '
        'messages: 46 bodies inside calls built by the library and inside '
        'calls of either byte order after a trip through the built-in bus - '
        'the body bytes must be the encoding (typed variant contents '
        'included) in the byte order the header announces. '
        'state = (signature, values); transition = one library call compared '
        'with the reference' % (Kf, Kr, len(space.FOREIGN_VARIANT_VALUES)))
    ctx.bounds = {'K_full': Kf, 'K_reduced': Kr,
                  'signature_sequences': CS.total_sequences(Kf, Kr)}
    ctx.assumptions = ['mcx/refcodec.py is a correct reading of the '
                       'specification (it is cross-checked against the '
                       'library only through this comparison)']
    ctx.map(_task, CS.partition(Kf, Kr, max(ctx.jobs * 4, 1)))
    ctx.map(_task_special, [0])
    ctx.map(_task_messages, [0])
    from mcx.checks import c01
    ctx.map(_task_scale, [(ctx.quick, k) for k in
                          c01.SCALE_KINDS + ['g', 'v-long-sig']])


def replay(data):
    if 'scale' in data:
        res = core.Result()
        kind, n, le, off = data['scale']
        sig, refvals = scale_case(kind, n)
        encode_case(res, sig, R.parse_sig(sig), refvals, 'list', le, off)
        decode_case(res, sig, R.parse_sig(sig), refvals, le, off)
        return [(s, v['what'][:300]) for s, v in res.violations.items()]
    res = core.Result()
    if data['dir'] == 'message':
        res = _task_messages(0)
        return [(s, v['what']) for s, v in res.violations.items()]
    if data['dir'] == 'fds':
        res = _task_special(0)
        return [(s, v['what']) for s, v in res.violations.items()]
    if data['dir'] == 'pad':
        from txdbus import marshal as M
        align = 8 if data['code'] == 'header' else R.ALIGN[data['code']]
        p = M.pad[data['code']](data['offset'])
        if p != b'\0' * ((-data['offset']) % align):
            return [('%s/pad/%s' % (PROP, data['code']), repr(p))]
        return []
    ts = R.parse_sig(data['sig'])
    refvals = eval(data['values'], {'Var': Var, 'nan': float('nan'),
                                    'inf': float('inf')})
    if data['dir'] == 'encode':
        encode_case(res, data['sig'], ts, refvals, data['style'],
                    data['little'], data['offset'])
    else:
        decode_case(res, data['sig'], ts, refvals, data['little'],
                    data['offset'])
    return [(s, v['what']) for s, v in res.violations.items()]
