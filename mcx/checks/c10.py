"""
C10 - every call to an exported object gets exactly one correctly addressed
reply (none when flagged no-reply and dispatched); the bound implementation
runs exactly once iff path, member-on-interface and signature match.

Histories of <= 2 incoming calls (every ordered pair from a pool covering
right / wrong path, interface, member, signature, reply flag) on fresh object
classes (the per-class interface caches are built lazily, so the order in
which classes are first touched is part of the history), plus held Deferreds
fired in every order.
"""
import itertools

from mcx import core, fakes, refcodec as R
from mcx.refcodec import Var

PROP = 'C10'
CALLER = ':1.50'


def make_family(log):
    """fresh interface objects and classes (nothing registered globally)"""
    from twisted.internet import defer
    from txdbus import objects as O, interface as I

    i1 = I.DBusInterface(
        'org.ex.I1',
        I.Method('Echo', 's', 's'), I.Method('Pair', 'ii', 'ii'),
        I.Method('Nothing', '', ''), I.Method('Struct', '(si)', '(si)'),
        I.Method('List', 'as', 'as'), I.Method('Var', 'v', 'v'),
        I.Method('Two', 'ss', 's'), I.Method('Who', '', 's'),
        I.Method('WhoArg', 's', 's'),
        I.Method('Defer', 's', 's'), I.Method('Fail', 's', ''),
        I.Method('FailNamed', '', ''), I.Method('FailBadName', '', ''),
        I.Method('BadRet', '', 'i'), I.Method('Shared', 's', 's'),
        I.Method('Unbound', '', ''),
        # a single container return value whose value has 0 / 1 elements
        I.Method('FailOdd', '', ''), I.Method('FailLong', '', ''),
        I.Method('List1', 'as', 'as'), I.Method('Tup1', '', '(i)'),
        I.Method('Empty', '', 'as'), I.Method('Dict1', '', 'a{si}'),
        noRegister=True)
    i2 = I.DBusInterface(
        'org.ex.I2', I.Method('Shared', 's', 's'), I.Method('Only2', '', 's'),
        I.Method('More', '', 's'), noRegister=True)
    i3 = I.DBusInterface('org.ex.I3', I.Method('Extra', '', 's'),
                         noRegister=True)

    class Base(O.DBusObject):
        dbusInterfaces = [i1, i2]

        def __init__(self, path, name):
            O.DBusObject.__init__(self, path)
            self.name = name
            self.held = []

        def _l(self, what, *args):
            log.append((self.name, what) + args)

        def dbus_Echo(self, s):
            self._l('Echo', s)
            return s

        def dbus_Pair(self, a, b):
            self._l('Pair', a, b)
            return (b, a)

        def dbus_Nothing(self):
            self._l('Nothing')

        def dbus_Struct(self, st):
            self._l('Struct', st)
            return (st[0] + '!', st[1] + 1)

        def dbus_List(self, l):
            self._l('List', l)
            return list(reversed(l))

        def dbus_List1(self, l):
            self._l('List1', l)
            return list(l)

        def dbus_Tup1(self):
            self._l('Tup1')
            return (7,)

        def dbus_Empty(self):
            self._l('Empty')
            return []

        def dbus_Dict1(self):
            self._l('Dict1')
            return {'k': 1}

        def dbus_Var(self, v):
            self._l('Var', v)
            return v

        def dbus_Two(self, a, b):
            self._l('Two', a, b)
            return a + b

        def dbus_Who(self, dbusCaller=None):
            self._l('Who', dbusCaller)
            return dbusCaller

        def dbus_WhoArg(self, s, dbusCaller=None):
            self._l('WhoArg', s, dbusCaller)
            return '%s<%s' % (s, dbusCaller)

        def dbus_Defer(self, s):
            self._l('Defer', s)
            d = defer.Deferred()
            self.held.append((d, s))
            return d

        def dbus_Fail(self, s):
            self._l('Fail', s)
            raise ValueError('bad ' + s)

        def dbus_FailNamed(self):
            self._l('FailNamed')
            e = Exception('named text')
            e.dbusErrorName = 'org.ex.Err.Named'
            raise e

        def dbus_FailBadName(self):
            self._l('FailBadName')
            e = Exception('badname text')
            e.dbusErrorName = 'not a name'
            raise e

        def dbus_FailOdd(self):
            self._l('FailOdd')
            raise type('Fehler\u00df-1', (Exception,), {})('odd text')

        def dbus_FailLong(self):
            self._l('FailLong')
            raise type('E' * 240, (Exception,), {})('long text')

        def dbus_BadRet(self):
            self._l('BadRet')
            return 'not-an-int'

        @O.dbusMethod('org.ex.I1', 'Shared')
        def shared1(self, s):
            self._l('Shared@I1', s)
            return 'I1:' + s

        @O.dbusMethod('org.ex.I2', 'Shared')
        def shared2(self, s):
            self._l('Shared@I2', s)
            return 'I2:' + s

        @O.dbusMethod('org.ex.I2', 'Only2')
        def only2(self):
            self._l('Only2')
            return 'only2'

        @O.dbusMethod('org.ex.I2', 'More')
        def more_base(self):
            self._l('More@base')
            return 'more-base'

    class Derived(Base):
        dbusInterfaces = [i3]

        @O.dbusMethod('org.ex.I3', 'Extra')
        def extra(self):
            self._l('Extra')
            return 'extra'

        # overrides that change whether the implementation asks for the
        # caller: the flag belongs to the implementation, not to the member
        def dbus_Echo(self, s, dbusCaller=None):
            self._l('Echo', s, dbusCaller)
            return s

        def dbus_Who(self):
            self._l('Who', None)
            return 'nobody'

        # an ordinary override, without repeating the decorator, of a
        # method the base class bound by decorator: the override is what
        # runs for a Derived object
        def only2(self):
            self._l('Only2@override')
            return 'only2-override'

        # the same interface as the base class binds other members of
        @O.dbusMethod('org.ex.I2', 'More')
        def more_derived(self):
            self._l('More@derived')
            return 'more-derived'

    return Base, Derived


# (member, right input signature, right body (reference values))
MEMBERS = {
    'Echo': ('s', ['hi']), 'Pair': ('ii', [1, 2]), 'Nothing': ('', []),
    'Struct': ('(si)', [['a', 1]]), 'List': ('as', [['x', 'y']]),
    'Var': ('v', [Var('s', 'vv')]), 'Two': ('ss', ['a', 'b']),
    'Who': ('', []), 'WhoArg': ('s', ['w']), 'Defer': ('s', ['later']),
    'Fail': ('s', ['x']), 'FailNamed': ('', []), 'FailBadName': ('', []),
    'BadRet': ('', []), 'Shared': ('s', ['sh']), 'Unbound': ('', []),
    'Only2': ('', []), 'More': ('', []), 'Extra': ('', []), 'Nope': ('', []),
    'List1': ('as', [['solo']]), 'Tup1': ('', []), 'Empty': ('', []),
    'Dict1': ('', []), 'FailOdd': ('', []), 'FailLong': ('', []),
}
IFACE_OF = {m: 'org.ex.I1' for m in
            ('Echo', 'Pair', 'Nothing', 'Struct', 'List', 'Var', 'Two', 'Who',
             'WhoArg', 'Defer', 'Fail', 'FailNamed', 'FailBadName', 'BadRet',
             'Unbound', 'List1', 'Tup1', 'Empty', 'Dict1', 'FailOdd',
             'FailLong')}
IFACE_OF.update({'Only2': 'org.ex.I2', 'More': 'org.ex.I2',
                 'Extra': 'org.ex.I3'})
PATHS = {'/base': 'base', '/base/derived': 'derived', '/nope': None,
         '/': None, '/base/derive': None}


def call_pool(quick):
    """(path, interface or None, member, signature kind, expect_reply)"""
    pool = []
    for member in MEMBERS:
        right_if = IFACE_OF.get(member)
        ifaces = [right_if, None, 'org.ex.Nope']
        if member == 'Shared':
            ifaces = ['org.ex.I1', 'org.ex.I2', None, 'org.ex.I3']
        elif member != 'Nope':
            ifaces.append('org.ex.I2' if right_if != 'org.ex.I2'
                          else 'org.ex.I1')
        else:
            ifaces = ['org.ex.I1', None]
        for iface in ifaces:
            for path in ('/base', '/base/derived'):
                for sk in ('right', 'wrong', 'absent'):
                    if sk == 'absent' and not MEMBERS[member][0]:
                        continue
                    for er in (True, False):
                        if quick and not er and sk != 'right':
                            continue
                        if quick and sk != 'right' and iface is None:
                            continue
                        pool.append((path, iface, member, sk, er))
    for path in ('/nope', '/', '/base/derive'):
        for member, iface in (('Echo', 'org.ex.I1'), ('Echo', None),
                              ('Nothing', None)):
            for er in (True, False):
                pool.append((path, iface, member, 'right', er))
    return pool


def encode_call(call, serial):
    path, iface, member, sk, er = call
    sig, body = MEMBERS[member]
    if sk == 'wrong':
        sig, body = ('u', [7]) if sig != 'u' else ('s', ['x'])
    elif sk == 'absent':
        sig, body = '', []
    f = {'path': path, 'member': member, 'sender': CALLER,
         'destination': ':1.7'}
    if iface:
        f['interface'] = iface
    # two calls in three carry a header field of a code this version does
    # not know (to be ignored), at varying positions among the others; one
    # in three has the no-auto-start bit set as well
    extra = []
    if serial % 3:
        nfields = len(f) + (1 if sig else 0)
        extra = [((serial // 3) % (nfields + 1), 10 + serial % 2,
                  Var('s', 'future') if serial % 2 else Var('u', 7))]
    return R.encode_message(R.METHOD_CALL, serial, f, sig, body,
                            flags=(0 if er else 1) | (2 if serial % 3 == 1
                                                      else 0),
                            little=(serial % 2 == 0), extra_fields=extra)


def expected(call, objname_of):
    """-> dict(kind=...) describing what the reference dispatcher demands"""
    path, iface, member, sk, er = call
    obj = PATHS.get(path)
    if obj is None:
        return {'kind': 'error', 'names': ['org.freedesktop.DBus.Error.'
                                           'UnknownObject'], 'runs': None}
    ifaces_of = {'base': ['org.ex.I1', 'org.ex.I2'],
                 'derived': ['org.ex.I3', 'org.ex.I1', 'org.ex.I2']}[obj]
    declares = {'org.ex.I1': set(IFACE_OF) - {'Only2', 'More', 'Extra'}
                | {'Shared'},
                'org.ex.I2': {'Shared', 'Only2', 'More'},
                'org.ex.I3': {'Extra'}}
    um = {'kind': 'error', 'names': ['org.freedesktop.DBus.Error.'
                                     'UnknownMethod'], 'runs': None}
    if iface is not None:
        if iface not in ifaces_of or member not in declares[iface]:
            return um
        cands = [iface]
    else:
        cands = [i for i in ifaces_of if member in declares[i]]
        if not cands:
            return um
    rsig = MEMBERS[member][0]
    if sk != 'right':
        return {'kind': 'error', 'names': ['org.freedesktop.DBus.Error.'
                                           'InvalidArgs'], 'runs': None}
    arg = R.as_plain(R.parse_sig(rsig), MEMBERS[member][1])
    # dispatched
    outs = []
    for c in cands:
        outs.append(_outcome(obj, c, member, arg))
    return {'kind': 'dispatched', 'alts': outs}


def _outcome(obj, iface, member, arg):
    """(log entry, reply description) for a dispatched call"""
    name = obj
    if member == 'Echo':
        if obj == 'derived':
            return ((name, 'Echo', arg[0], CALLER), ('ret', 's', [arg[0]]))
        return ((name, 'Echo', arg[0]), ('ret', 's', [arg[0]]))
    if member == 'Pair':
        return ((name, 'Pair', 1, 2), ('ret', 'ii', [2, 1]))
    if member == 'Nothing':
        return ((name, 'Nothing'), ('ret', '', []))
    if member == 'Struct':
        return ((name, 'Struct', ['a', 1]), ('ret', '(si)', [['a!', 2]]))
    if member == 'List':
        return ((name, 'List', ['x', 'y']), ('ret', 'as', [['y', 'x']]))
    if member == 'Var':
        return ((name, 'Var', 'vv'), ('ret', 'v', ['vv']))
    if member == 'List1':
        return ((name, 'List1', ['solo']), ('ret', 'as', [['solo']]))
    if member == 'Tup1':
        return ((name, 'Tup1'), ('ret', '(i)', [[7]]))
    if member == 'Empty':
        return ((name, 'Empty'), ('ret', 'as', [[]]))
    if member == 'Dict1':
        return ((name, 'Dict1'), ('ret', 'a{si}', [{'k': 1}]))
    if member == 'Two':
        return ((name, 'Two', 'a', 'b'), ('ret', 's', ['ab']))
    if member == 'Who':
        if obj == 'derived':
            return ((name, 'Who', None), ('ret', 's', ['nobody']))
        return ((name, 'Who', CALLER), ('ret', 's', [CALLER]))
    if member == 'WhoArg':
        return ((name, 'WhoArg', 'w', CALLER), ('ret', 's',
                                                ['w<' + CALLER]))
    if member == 'Defer':
        return ((name, 'Defer', 'later'), ('held',))
    if member == 'Fail':
        return ((name, 'Fail', 'x'),
                ('err', 'org.txdbus.PythonException.ValueError', 'bad x'))
    if member == 'FailNamed':
        return ((name, 'FailNamed'), ('err', 'org.ex.Err.Named',
                                      'named text'))
    if member == 'FailBadName':
        return ((name, 'FailBadName'), ('err', 'org.txdbus.InvalidErrorName',
                                        'badname text'))
    if member == 'FailOdd':
        # org.txdbus.PythonException.<Class> is not a valid name here
        return ((name, 'FailOdd'), ('err', 'org.txdbus.InvalidErrorName',
                                    'odd text'))
    if member == 'FailLong':
        return ((name, 'FailLong'), ('err', 'org.txdbus.InvalidErrorName',
                                     'long text'))
    if member == 'BadRet':
        return ((name, 'BadRet'), ('err', None, None))
    if member == 'Shared':
        tag = iface[-2:]
        return ((name, 'Shared@' + tag, 'sh'), ('ret', 's',
                                                [tag + ':sh']))
    if member == 'Unbound':
        # declared on the interface, no implementation bound: the statement
        # only covers bound implementations - one error reply, no user code
        return (None, ('err', None, None))
    if member == 'Only2':
        if name == 'derived':
            return ((name, 'Only2@override'), ('ret', 's',
                                                ['only2-override']))
        return ((name, 'Only2'), ('ret', 's', ['only2']))
    if member == 'More':
        return ((name, 'More@' + ('derived' if obj == 'derived' else 'base')),
                ('ret', 's', ['more-derived' if obj == 'derived'
                              else 'more-base']))
    if member == 'Extra':
        return ((name, 'Extra'), ('ret', 's', ['extra']))
    raise KeyError(member)


def match_reply(desc, msgs, serial, expect_reply):
    """compares replies to one call with a reply description; returns a list
    of problems"""
    mine = [m for m in msgs if m['fields'].get('reply_serial') == serial]
    probs = []
    for m in mine:
        if m['fields'].get('destination') != CALLER:
            probs.append('reply addressed to %r, caller is %r'
                         % (m['fields'].get('destination'), CALLER))
        if m['type'] not in (2, 3):
            probs.append('reply of type %d' % m['type'])
    if desc[0] == 'held':
        if mine:
            probs.append('replied before the Deferred fired: %r'
                         % [_b(m) for m in mine])
        return probs
    if not expect_reply:
        if mine:
            probs.append('call flagged no-reply was dispatched and answered '
                         '%r' % [_b(m) for m in mine])
        return probs
    if len(mine) != 1:
        probs.append('%d replies: %r' % (len(mine), [_b(m) for m in mine]))
        return probs
    m = mine[0]
    if desc[0] == 'ret':
        if m['type'] != 2 or m['body_sig'] != desc[1] or \
                m['body_plain'] != desc[2]:
            probs.append('expected return %r %r, got %r'
                         % (desc[1], desc[2], _b(m)))
    else:
        if m['type'] != 3:
            probs.append('expected an error reply, got %r' % (_b(m),))
        else:
            if desc[1] is not None and \
                    m['fields'].get('error_name') != desc[1]:
                probs.append('error name %r, expected %r'
                             % (m['fields'].get('error_name'), desc[1]))
            if desc[2] is not None and not (
                    m['body'] and isinstance(m['body'][0], str)
                    and desc[2] in m['body'][0]):
                probs.append('error message %r lacks %r'
                             % (m['body'], desc[2]))
    return probs


def _b(m):
    return (m['type'], m['fields'].get('error_name'), m['body_sig'],
            m['body_plain'])


class World:
    def __init__(self, touch_order):
        self.log = []
        self.cw = fakes.ClientWorld()
        Base, Derived = make_family(self.log)
        self.objs = {'base': Base('/base', 'base'),
                     'derived': Derived('/base/derived', 'derived')}
        for n in touch_order:
            self.cw.conn.exportObject(self.objs[n])
        self.cw.sent()
        self.serial = 40

    def deliver(self, call):
        self.serial += 1
        before = len(self.log)
        self.cw.conn.dataReceived(encode_call(call, self.serial))
        return self.serial, self.log[before:], self.cw.sent()

    def close(self):
        self.cw.close()


def run_history(calls, touch_order=('base', 'derived')):
    """delivers the calls in order on a fresh world; returns violations"""
    w = World(touch_order)
    viol = []
    try:
        for idx, call in enumerate(calls):
            try:
                serial, ran, msgs = w.deliver(call)
            except Exception as e:
                viol.append(('raises-%s' % type(e).__name__,
                             'delivering %r raised %r' % (call, e)))
                break
            exp = expected(call, None)
            tag = _tag(call)
            stray = [m for m in msgs
                     if m['fields'].get('reply_serial') != serial]
            if stray:
                viol.append(('stray/' + tag, 'call %r produced unrelated '
                             'messages %r' % (call, [_b(m) for m in stray])))
            if exp['kind'] == 'error':
                if ran:
                    viol.append(('user-code-ran/' + tag,
                                 'call %r must be refused (%s) but user code '
                                 'ran: %r' % (call, exp['names'][0], ran)))
                mine = [m for m in msgs
                        if m['fields'].get('reply_serial') == serial]
                want_n = (1,) if call[4] else (0, 1)
                if len(mine) not in want_n:
                    viol.append(('refusal-count/' + tag,
                                 'call %r: %d replies' % (call, len(mine))))
                for m in mine:
                    if m['type'] != 3 or \
                            m['fields'].get('error_name') not in exp['names']:
                        viol.append(('refusal/' + tag,
                                     'call %r: expected %s, got %r'
                                     % (call, exp['names'][0], _b(m))))
                    if m['fields'].get('destination') != CALLER:
                        viol.append(('refusal-address/' + tag,
                                     'reply addressed to %r'
                                     % m['fields'].get('destination')))
                continue
            # dispatched: one of the alternatives must fit entirely
            fits = []
            for logent, desc in exp['alts']:
                p = []
                want_ran = [logent] if logent is not None else []
                if ran != want_ran:
                    p.append('implementation invocations %r, expected %r'
                             % (ran, want_ran))
                p += match_reply(desc, msgs, serial, call[4])
                fits.append(p)
            if not any(not p for p in fits):
                p = min(fits, key=len)
                viol.append(('dispatch/%s/%s' % (tag, _ptag(p[0])),
                             'call %r (history %r, export order %r): %s'
                             % (call, calls[:idx], touch_order,
                                '; '.join(p))))
    finally:
        w.close()
    return viol


def _ptag(p):
    return p.split()[0] if p else ''


def _tag(call):
    path, iface, member, sk, er = call
    return '%s/%s/%s/sig-%s/%s' % (
        'derived' if path.endswith('derived') else
        'base' if path == '/base' else 'unexported',
        'noiface' if iface is None else iface[-2:], member, sk,
        'reply' if er else 'noreply')


def run_deferred(order, outcomes, noreply):
    """two Defer calls held, fired in `order` with `outcomes`"""
    from twisted.python.failure import Failure
    w = World(('base', 'derived'))
    viol = []
    try:
        calls = [('/base', 'org.ex.I1', 'Defer', 'right', not noreply[0]),
                 ('/base/derived', None, 'Defer', 'right', not noreply[1])]
        serials = []
        for c in calls:
            s, ran, msgs = w.deliver(c)
            serials.append(s)
            if [m for m in msgs if m['fields'].get('reply_serial')]:
                viol.append(('deferred/early-reply',
                             'a reply was sent before the Deferred fired'))
        held = [w.objs['base'].held[0], w.objs['derived'].held[0]]
        for k in order:
            d, s = held[k]
            if outcomes[k] == 'ok':
                d.callback('done-%d' % k)
                desc = ('ret', 's', ['done-%d' % k])
            elif outcomes[k] == 'fail':
                d.errback(Failure(KeyError('lost-%d' % k)))
                desc = ('err', 'org.txdbus.PythonException.KeyError',
                        'lost-%d' % k)
            else:
                d.callback(12345)            # not encodable under 's'
                desc = ('err', None, None)
            msgs = w.cw.sent()
            other = [m for m in msgs
                     if m['fields'].get('reply_serial') != serials[k]]
            if other:
                viol.append(('deferred/cross',
                             'firing call %d produced messages for another '
                             'serial: %r' % (k, [_b(m) for m in other])))
            p = match_reply(desc, msgs, serials[k], not noreply[k])
            if p:
                viol.append(('deferred/%s/%s' % (outcomes[k], _ptag(p[0])),
                             'held call %d fired %s (order %r): %s'
                             % (k, outcomes[k], order, '; '.join(p))))
    except Exception as e:
        viol.append(('deferred/raises-%s' % type(e).__name__, repr(e)))
    finally:
        w.close()
    return viol


def _task_pairs(task):
    quick, part, nparts = task
    res = core.Result()
    pool = call_pool(quick)
    n = 0
    # singles on both export orders, then ordered pairs
    hists = [((c,), o) for c in pool
             for o in (('base', 'derived'), ('derived', 'base'),
                       ('derived',), ('base',))]
    firsts = pool if not quick else [
        c for c in pool if c[3] == 'right' and c[4] and c[1] is not None
        and c[2] in ('Echo', 'Who', 'Shared', 'Only2', 'More', 'Extra',
                     'Fail', 'Nope')]
    hists += [((a, b), ('base', 'derived')) for a in firsts for b in pool]
    for i, (calls, order) in enumerate(hists):
        if i % nparts != part:
            continue
        calls = [c for c in calls
                 if PATHS.get(c[0]) is None or PATHS[c[0]] in order]
        if not calls:
            continue
        n += 1
        for tag, what in run_history(list(calls), order):
            res.violation('%s/%s' % (PROP, tag), what,
                          {'part': 'pairs', 'calls': [list(c) for c in calls],
                           'order': list(order)}, size=len(calls))
        if len(calls) > 1:
            res.count('nontrivial')
        if i % 5000 == 0:
            res.sample({'calls': [list(c) for c in calls],
                        'export_order': list(order)})
    res.count('states', n)
    res.count('transitions', n)
    res.count('evaluations', n)
    res.count('traces', n)
    return res


def _task_deferred(_):
    res = core.Result()
    n = 0
    for order in ((0, 1), (1, 0)):
        for outcomes in itertools.product(('ok', 'fail', 'badtype'),
                                          repeat=2):
            for noreply in itertools.product((False, True), repeat=2):
                n += 1
                for tag, what in run_deferred(order, outcomes, noreply):
                    res.violation('%s/%s' % (PROP, tag), what,
                                  {'part': 'deferred', 'order': list(order),
                                   'outcomes': list(outcomes),
                                   'noreply': list(noreply)}, size=2)
    res.count('states', n)
    res.count('transitions', n)
    res.count('evaluations', n)
    res.count('traces', n)
    res.count('nontrivial', n)
    res.sample({'held_calls': 2, 'fire_orders': [[0, 1], [1, 0]],
                'outcomes': ['ok', 'fail', 'badtype']})
    return res


def run(ctx):
    pool = call_pool(ctx.quick)
    ctx.rule = (
        'object family built fresh per execution: dbus_<name> bindings, an '
        'undecorated override of a decorator-bound base method, one '
        'member on two interfaces bound by decorator, a derived class adding '
        'an interface and decorating another member of an interface its base '
        'class also decorates, dbusCaller methods, signatures "", s, ii, '
        '(si), as, v, ss. Call pool (%d calls): path in {exported x2, '
        'unexported, parent, textual prefix} x interface in {right, other, '
        'unknown, absent} x member (20, one undeclared, one unbound) x '
        'signature in {right, wrong, absent} x reply flag. Histories: every '
        'single call under 4 export orders, every ordered pair (first call '
        'from %s). Held Deferreds: 2 in flight x both firing orders x '
        '{value, failure, unencodable value}^2 x reply flags. Calls are real '
        'bytes (flags byte included) through dataReceived; replies are read '
        'with the reference parser. Lifecycle: a method that unexports its '
        'own object and then returns / raises; a held Deferred whose object '
        'is unexported (or replaced at its path) before it fires / fails. '
        'Long-lived connection: 60..600 cycles '
        'of export / call own and foreign member / unexport of short-lived '
        'objects of two classes, 0, 7 or 40 of them live at a time. '
        'state = history; transition = executed '
        'history' % (len(pool), 'a subset' if ctx.quick else 'the pool'))
    ctx.assumptions = [
        'with no interface header any interface declaring the member may be '
        'chosen (D-Bus leaves it open); exactly one implementation must run',
        'a member declared but not bound to an implementation yields one '
        'error reply of unspecified name']
    n = ctx.jobs * 3
    ctx.map(_task_pairs, [(ctx.quick, i, n) for i in range(n)])
    ctx.map(_task_deferred, [0])
    ctx.map(_task_composed, [0])
    ctx.map(_task_churn, CHURN)
    ctx.map(_task_lifecycle, LIFECYCLE)
    ctx.bounds = {'call_pool': len(pool), 'history_length': 2}


def run_composed():
    """the same claim end to end: a real client builds the call (all four
    combinations of the no-reply and no-auto-start flags), the real bus
    hands it on, a real exporting client dispatches it; what the exporter
    writes back is counted on the wire"""
    from mcx.checks import c11
    from mcx import refcodec as R
    viol = []
    sc = dict(n=2, exporters={0: 'org.ex.A'}, calls=[])
    s = c11.System(sc, 'explicit')
    try:
        caller = s.cprotos[1]
        for method, body, fails in (('Echo', ['a'], False),
                                    ('Fail', ['z'], True)):
            for er in (True, False):
                for auto in (True, False):
                    del s.log[:]
                    before = len(s.ct[0].log)
                    got = []
                    d = caller.callRemote(
                        '/svc', method, interface='org.ex.Svc',
                        destination='org.ex.A', signature='s', body=body,
                        expectReply=er, autoStart=auto)
                    d.addBoth(got.append)
                    # the call as the caller put it on the wire
                    sent = fakes.messages_of(s.ct[1].out[-1])[0]
                    s.pump()
                    wrote = b''.join(e[1] for e in s.ct[0].log[before:]
                                     if e[0] == 'w')
                    replies = [m for m in fakes.messages_of(wrote)
                               if m['fields'].get('reply_serial') ==
                               sent['serial']]
                    tag = '%s/%s/%s' % (method, 'reply' if er else 'noreply',
                                        'autostart' if auto else
                                        'no-autostart')
                    ran = [e for e in s.log if e[1] == method]
                    if len(ran) != 1:
                        viol.append(('composed/invocations/' + tag,
                                     '%s(%r) expectReply=%s autoStart=%s ran '
                                     '%d times' % (method, body, er, auto,
                                                   len(ran))))
                    if len(replies) != (1 if er else 0):
                        viol.append((
                            'composed/replies/' + tag,
                            '%s(%r) called with expectReply=%s autoStart=%s '
                            '(flags byte %d on the wire): the exporter wrote '
                            '%d replies %r' % (method, body, er, auto,
                                               sent['flags'], len(replies),
                                               [_b(m) for m in replies])))
                    elif replies:
                        m = replies[0]
                        if m['type'] != (3 if fails else 2) or \
                                m['fields'].get('destination') != \
                                caller.busName:
                            viol.append(('composed/reply/' + tag,
                                         'reply %r to %s' % (
                                             _b(m), m['fields'].get(
                                                 'destination'))))
    except Exception as e:
        viol.append(('composed/raises-%s' % type(e).__name__,
                     'the composed run raised %r' % (e,)))
    finally:
        s.close()
    return viol


def run_two_handlers():
    """two connections in one process, each with its own exported objects:
    a call is dispatched among the objects exported on the connection it
    arrived on, and nowhere else"""
    from txdbus import objects as O, interface as I
    viol = []
    a, b = fakes.ClientWorld(), fakes.ClientWorld()
    try:
        for w in (a, b):
            w.sent()
        iface = I.DBusInterface('org.ex.Two', I.Method('Who', '', 's'),
                                noRegister=True)
        ran = []

        class Obj(O.DBusObject):
            dbusInterfaces = [iface]

            def __init__(self, path, tag):
                O.DBusObject.__init__(self, path)
                self.tag = tag

            def dbus_Who(self):
                ran.append(self.tag)
                return self.tag
        a.conn.exportObject(Obj('/only_a', 'a1'))
        a.conn.exportObject(Obj('/shared', 'a2'))
        b.conn.exportObject(Obj('/shared', 'b2'))
        b.conn.exportObject(Obj('/only_b', 'b3'))
        b.conn.unexportObject('/only_b')
        a.conn.exportObject(Obj('/only_b', 'a3'))
        for w in (a, b):
            w.sent()
        serial = 900
        table = [(a, '/only_a', 'a1'), (b, '/only_a', None),
                 (a, '/shared', 'a2'), (b, '/shared', 'b2'),
                 (a, '/only_b', 'a3'), (b, '/only_b', None),
                 (b, '/org/freedesktop/DBus', None)]
        for w, path, want in table:
            serial += 1
            del ran[:]
            w.conn.dataReceived(R.encode_message(
                R.METHOD_CALL, serial,
                {'path': path, 'member': 'Who', 'interface': 'org.ex.Two',
                 'sender': CALLER, 'destination': ':1.7'}))
            mine = [m for m in w.sent()
                    if m['fields'].get('reply_serial') == serial]
            other = (b if w is a else a).sent()
            ok = len(mine) == 1 and not other and (
                (want is not None and mine[0]['type'] == 2 and
                 mine[0]['body'] == [want] and ran == [want]) or
                (want is None and mine[0]['type'] == 3 and
                 mine[0]['fields'].get('error_name') ==
                 'org.freedesktop.DBus.Error.UnknownObject' and not ran))
            if not ok:
                viol.append(('two-connections/%s' % ('dispatched-elsewhere'
                                                    if want is None else
                                                    'wrong-object'),
                             'connection %s received a call to %s: ran %r, '
                             'answered %r (the other connection wrote %d '
                             'messages); expected %s'
                             % ('A' if w is a else 'B', path, ran,
                                [_b(m) for m in mine], len(other),
                                want or 'UnknownObject')))
    except Exception as e:
        viol.append(('two-connections/raises-%s' % type(e).__name__,
                     'two connections with their own exports: %r' % (e,)))
    finally:
        b.close()
        a.close()
    return viol


def run_churn(cycles, live, same_path):
    """a long-lived connection exporting short-lived objects of two classes
    (different interfaces) one after the other, each called once with its
    own member and once with the other class's member, then unexported and
    dropped `live` cycles later: every call is dispatched according to the
    object exported at that path at that moment"""
    import gc
    from txdbus import objects as O, interface as I
    viol = []
    w = fakes.ClientWorld()
    try:
        w.sent()
        ia = I.DBusInterface('org.ex.ChurnA', I.Method('Ping', 's', 's'),
                             noRegister=True)
        ib = I.DBusInterface('org.ex.ChurnB', I.Method('Count', 'u', 'uu'),
                             noRegister=True)
        ran = []

        class Alpha(O.DBusObject):
            dbusInterfaces = [ia]

            def dbus_Ping(self, t):
                ran.append(('Ping', t))
                return 'alpha:' + t

        class Beta(O.DBusObject):
            dbusInterfaces = [ib]

            def dbus_Count(self, n):
                ran.append(('Count', n))
                return n, n + 1
        paths = []
        serial = 2000
        for n in range(cycles):
            path = '/churn/p' if same_path else '/churn/s%d' % n
            alpha = (n % 2 == 0) if not same_path else (n % 3 != 1)
            obj = (Alpha if alpha else Beta)(path)
            w.conn.exportObject(obj)
            del obj
            w.sent()
            calls = [('org.ex.ChurnA', 'Ping', 's', ['x%d' % n],
                      ['alpha:x%d' % n] if alpha else None,
                      ('Ping', 'x%d' % n)),
                     ('org.ex.ChurnB', 'Count', 'u', [n],
                      None if alpha else [n, n + 1], ('Count', n))]
            for iface, member, sig, body, want, log in calls:
                serial += 1
                del ran[:]
                w.conn.dataReceived(R.encode_message(
                    R.METHOD_CALL, serial,
                    {'path': path, 'member': member, 'interface': iface,
                     'sender': CALLER, 'destination': ':1.7'}, sig, body))
                mine = [m for m in w.sent()
                        if m['fields'].get('reply_serial') == serial]
                if want is not None:
                    ok = len(mine) == 1 and mine[0]['type'] == 2 and \
                        mine[0]['body'] == want and ran == [log]
                else:
                    ok = len(mine) == 1 and mine[0]['type'] == 3 and \
                        not ran
                if not ok:
                    viol.append(('churn/%s' % ('own-member' if want
                                               is not None else
                                               'other-class-member'),
                                 'cycle %d of export / call / unexport '
                                 '(%d objects live, %s): %s.%s on the %s '
                                 'object at %s ran %r and was answered %r'
                                 % (n, live, 'one path' if same_path else
                                    'a path per object', iface, member,
                                    'Alpha' if alpha else 'Beta', path, ran,
                                    [_b(m) for m in mine])))
                    return viol
            paths.append(path)
            if len(paths) > live or same_path:
                w.conn.unexportObject(paths.pop(0))
                gc.collect()
                w.sent()
    except Exception as e:
        viol.append(('churn/raises-%s' % type(e).__name__,
                     'export / call / unexport cycles: %r' % (e,)))
    finally:
        w.close()
    return viol


def run_lifecycle(case):
    """calls whose object leaves the export table before the result is
    there: a Close()-style method that unexports its own object and then
    returns a value or raises; a method that returns a Deferred, with the
    object unexported (and possibly another one exported at the path)
    before the Deferred fires.  The call was dispatched: it gets its one
    reply, with its serial, addressed to the caller"""
    from twisted.internet import defer
    from txdbus import objects as O, interface as I
    viol = []
    w = fakes.ClientWorld()
    try:
        w.sent()
        ifc = I.DBusInterface(
            'org.ex.Life', I.Method('Close', '', 's'),
            I.Method('CloseFail', '', ''), I.Method('Later', 's', 's'),
            I.Method('Ping', '', 's'), noRegister=True)
        ran = []
        held = []

        class Obj(O.DBusObject):
            dbusInterfaces = [ifc]

            def __init__(self, path, tag):
                O.DBusObject.__init__(self, path)
                self.tag = tag

            def dbus_Close(self):
                ran.append(self.tag + '.Close')
                w.conn.unexportObject(self.getObjectPath())
                return 'closed-' + self.tag

            def dbus_CloseFail(self):
                ran.append(self.tag + '.CloseFail')
                w.conn.unexportObject(self.getObjectPath())
                raise ValueError('closing failed')

            def dbus_Later(self, s):
                ran.append(self.tag + '.Later')
                d = defer.Deferred()
                held.append((d, s))
                return d

            def dbus_Ping(self):
                ran.append(self.tag + '.Ping')
                return self.tag
        if case == 'adapted':
            # a plain application object exported through a registered
            # IDBusObject adapter (exportObject accepts anything adaptable)
            from twisted.python import components

            class App(object):
                def __init__(self, tag):
                    self.tag = tag
            if not _ADAPTED:
                components.registerAdapter(
                    lambda a: a.make('/life', a.tag), App_base, O.IDBusObject)
                _ADAPTED.append(True)

            class App(App_base):
                def __init__(self, tag):
                    self.tag = tag

                def make(self, path, tag):
                    return Obj(path, tag)
            w.conn.exportObject(App('first'))
        else:
            w.conn.exportObject(Obj('/life', 'first'))
        w.sent()
        serial = [3000]

        def call(member, sig='', body=()):
            serial[0] += 1
            w.conn.dataReceived(R.encode_message(
                R.METHOD_CALL, serial[0],
                {'path': '/life', 'member': member,
                 'interface': 'org.ex.Life', 'sender': CALLER,
                 'destination': ':1.7'}, sig, list(body)))
            return serial[0]

        def replies(s):
            return [m for m in w.sent()
                    if m['fields'].get('reply_serial') == s]

        def want_one(s, msgs, kind, body=None, err=None):
            ok = len(msgs) == 1 and msgs[0]['type'] == kind and \
                msgs[0]['fields'].get('destination') == CALLER and \
                (body is None or msgs[0]['body'] == body) and \
                (err is None or msgs[0]['fields'].get('error_name') == err)
            if not ok:
                viol.append(('lifecycle/%s' % case,
                             'case %s: call %d was answered %r, expected '
                             'one %s' % (case, s, [_b(m) for m in msgs],
                                         'return %r' % (body,) if kind == 2
                                         else 'error ' + str(err))))
        if case == 'adapted':
            s = call('Ping')
            want_one(s, replies(s), 2, ['first'])
            s = call('Later', 's', ['y'])
            held[0][0].callback('y!')
            want_one(s, replies(s), 2, ['y!'])
            w.conn.unexportObject('/life')
            w.sent()
        elif case == 'close':
            s = call('Close')
            want_one(s, replies(s), 2, ['closed-first'])
        elif case == 'close-fail':
            s = call('CloseFail')
            want_one(s, replies(s), 3,
                     err='org.txdbus.PythonException.ValueError')
        elif case in ('later-unexport', 'later-unexport-fail',
                      'later-replace'):
            s = call('Later', 's', ['x'])
            first = replies(s)
            if first:
                viol.append(('lifecycle/%s/early' % case,
                             'a reply was written before the Deferred '
                             'fired: %r' % [_b(m) for m in first]))
            w.conn.unexportObject('/life')
            if case == 'later-replace':
                w.conn.exportObject(Obj('/life', 'second'))
            w.sent()
            d, arg = held[0]
            if case == 'later-unexport-fail':
                d.errback(ValueError('late failure'))
                want_one(s, replies(s), 3,
                         err='org.txdbus.PythonException.ValueError')
            else:
                d.callback(arg + '!')
                want_one(s, replies(s), 2, ['x!'])
        # afterwards the path answers according to what is exported there
        s = call('Ping')
        msgs = replies(s)
        if case == 'later-replace':
            want_one(s, msgs, 2, ['second'])
        else:
            want_one(s, msgs, 3,
                     err='org.freedesktop.DBus.Error.UnknownObject')
        want_ran = {'adapted': ['first.Ping', 'first.Later'],
                    'close': ['first.Close'],
                    'close-fail': ['first.CloseFail'],
                    'later-unexport': ['first.Later'],
                    'later-unexport-fail': ['first.Later'],
                    'later-replace': ['first.Later', 'second.Ping']}[case]
        if ran != want_ran:
            viol.append(('lifecycle/%s/invocations' % case,
                         'implementations ran %r, expected %r'
                         % (ran, want_ran)))
    except Exception as e:
        viol.append(('lifecycle/%s/raises-%s' % (case, type(e).__name__),
                     '%r' % (e,)))
    finally:
        w.close()
    return viol


class App_base(object):
    """application objects that are adaptable to IDBusObject"""


_ADAPTED = []
LIFECYCLE = ['adapted', 'close', 'close-fail', 'later-unexport', 'later-unexport-fail',
             'later-replace']


def _task_lifecycle(case):
    res = core.Result()
    res.count('states')
    res.count('transitions', 4)
    res.count('evaluations', 2)
    res.count('nontrivial')
    for t, w in run_lifecycle(case):
        res.violation('%s/%s' % (PROP, t), w, {'part': 'lifecycle',
                                               'case': case}, size=1)
    return res


CHURN = [(60, 0, True), (200, 0, False), (300, 7, False), (600, 40, False)]


def _task_churn(args):
    res = core.Result()
    res.count('states', args[0])
    res.count('transitions', args[0] * 4)
    res.count('evaluations', args[0] * 2)
    res.count('nontrivial', args[0])
    for t, w in run_churn(*args):
        res.violation('%s/%s' % (PROP, t), w, {'part': 'churn',
                                               'args': list(args)},
                      size=args[0])
    return res


def _task_composed(_):
    res = core.Result()
    found = run_composed()
    res.count('states', 8)
    res.count('transitions', 8)
    res.count('evaluations', 8)
    res.count('nontrivial', 8)
    for t, w in found:
        res.violation('%s/%s' % (PROP, t), w, {'part': 'composed'}, size=1)
    res.count('states', 7)
    res.count('transitions', 7)
    res.count('evaluations', 7)
    for t, w in run_two_handlers():
        res.violation('%s/%s' % (PROP, t), w, {'part': 'two'}, size=1)
    return res


def replay(data):
    if data['part'] == 'lifecycle':
        return [('%s/%s' % (PROP, t), w) for t, w in
                run_lifecycle(data['case'])]
    if data['part'] == 'churn':
        return [('%s/%s' % (PROP, t), w) for t, w in
                run_churn(*data['args'])]
    if data['part'] == 'two':
        return [('%s/%s' % (PROP, t), w) for t, w in run_two_handlers()]
    if data['part'] == 'composed':
        found = run_composed()
        return [('%s/%s' % (PROP, t), w) for t, w in found]
    if data['part'] == 'pairs':
        found = run_history([tuple(c) for c in data['calls']],
                            tuple(data['order']))
    else:
        found = run_deferred(tuple(data['order']), tuple(data['outcomes']),
                             tuple(data['noreply']))
    return [('%s/%s' % (PROP, t), w) for t, w in found]
