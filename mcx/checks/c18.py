"""
C18 - the name/path validators accept exactly the D-Bus grammar, and no
message can be constructed carrying a name its validator rejects.

Exhaustive over every string of length <= L over one representative per
character class (and a few more), the 255-byte boundary, and every such string
in every name-carrying constructor slot of the four message classes.
"""
import itertools

from mcx import core, space
from mcx.ref import grammar

# one representative per class: lower, upper, digit, underscore, dot, hyphen,
# colon, slash, non-ASCII letter, space  (+ a non-ASCII digit in thorough)
# further members of the "non-ASCII" class that regular-expression engines
# treat specially: letters that case-fold into ASCII (long s, Kelvin sign,
# dotless i, dotted I), a non-ASCII digit, a fullwidth letter, and NUL / LF
SPECIALS = '\u017f\u212a\u0131\u0130\u0663\uff21\x00\n'
ALPHABET_Q = 'aZ1_.-:/é '
ALPHABET_T = 'aZ1_.-:/é ٣\n'


def _validators():
    from txdbus import marshal as M
    return {name: getattr(M, name) for name in grammar.VALIDATORS}


def _check_string(res, s, vals, MarshallingError):
    # forward, then again in reverse order: a verdict must not depend on
    # which other validator saw the string before (shared caches)
    _check_string_pass(res, s, vals, MarshallingError,
                       list(grammar.VALIDATORS.items()), '')
    _check_string_pass(res, s, vals, MarshallingError,
                       list(grammar.VALIDATORS.items())[::-1], '/2nd-pass')


def _check_string_pass(res, s, vals, MarshallingError, order, tag):
    for name, ref in order:
        want = ref(s)
        try:
            vals[name](s)
            got = True
            exc = None
        except MarshallingError:
            got = False
            exc = None
        except Exception as e:            # rejection must be MarshallingError
            got = False
            exc = e
        res.count('evaluations')
        if exc is not None:
            res.violation('C18/%s/raises-%s' % (name, type(exc).__name__),
                          '%s(%r) raised %r instead of MarshallingError'
                          % (name, s, exc),
                          {'kind': 'validator', 'validator': name,
                           'string': s}, size=len(s))
        elif got != want:
            res.violation(
                'C18/%s/%s/%s%s' % (name, 'accepts-invalid' if got
                                    else 'rejects-valid', _shape(s), tag),
                '%s(%r): library %s, grammar %s'
                % (name, s, 'accepts' if got else 'rejects',
                   'accepts' if want else 'rejects'),
                {'kind': 'validator', 'validator': name, 'string': s},
                size=len(s))
        res.outcome((name, got))


def _shape(s):
    """Character-class shape of a string: keeps signatures stable between
    runs and groups equivalent counterexamples."""
    out = []
    for ch in s[:12]:
        if ch.isascii() and ch.isalpha():
            out.append('a')
        elif ch.isascii() and ch.isdigit():
            out.append('1')
        elif ch in '_.-:/':
            out.append(ch)
        elif ch == ' ':
            out.append('~')
        else:
            out.append('?')
    return ''.join(out) + ('+%d' % (len(s) - 12) if len(s) > 12 else '')


def _task_strings(task):
    alphabet, first, maxlen = task
    from txdbus.error import MarshallingError
    vals = _validators()
    res = core.Result()
    n = 0
    for n_len in range(0 if first == '' else 1, maxlen + 1):
        if first == '':
            if n_len > 0:
                break
            cands = ['']
        else:
            cands = (first + ''.join(t) for t in
                     itertools.product(alphabet, repeat=n_len - 1))
        for s in cands:
            n += 1
            _check_string(res, s, vals, MarshallingError)
            if any(grammar.VALIDATORS[v](s) for v in grammar.VALIDATORS):
                res.count('nontrivial')
    res.count('states', n)
    res.count('transitions', 2 * n * len(grammar.VALIDATORS))
    if first:
        res.sample(first + alphabet[1] * 2)
    return res


def _long_names():
    """Well-formed names around the 255-byte limit (ASCII, so bytes equal
    characters for every string the grammar accepts) and multi-byte ones that
    are short in characters but long in bytes."""
    out = []
    for n in (253, 254, 255, 256, 257, 300):
        out.append('a.' + 'b' * (n - 2))            # interface/bus/error
        out.append('a' * n)                         # member
        out.append(':1.' + '2' * (n - 3))           # unique bus name
        out.append('/' + 'p' * (n - 1))             # paths have no limit
        out.append(('ab.' * n)[:n - 1] + 'c')       # many elements
        out.append('a.' + 'b' * (n - 4) + 'é')  # invalid char at the end
    out.append('é' * 130)                      # 130 chars, 260 bytes
    out.append('a.' + 'é' * 127)
    return out


def _task_long(_):
    from txdbus.error import MarshallingError
    vals = _validators()
    res = core.Result()
    names = _long_names()
    for s in names:
        _check_string(res, s, vals, MarshallingError)
        res.count('nontrivial')
    res.count('states', len(names))
    res.count('transitions', 2 * len(names) * len(grammar.VALIDATORS))
    res.sample('a.' + 'b' * 3 + '...(255 bytes)')
    return res


PREFIXES = ['org.txdbus.PythonException.', 'org.txdbus.',
            'org.freedesktop.DBus.Error.', 'org.freedesktop.DBus.',
            'org.freedesktop.DBus', ':1.', '/org/freedesktop/DBus/',
            '/org/freedesktop/DBus', 'org.freedesktop.DBus.Properties.']


def _task_prefixed(task):
    """names the library itself generates or knows start with fixed
    prefixes; a validator must not treat what follows such a prefix any
    differently: prefix + every string of length <= L over the alphabet, and
    prefix + long / non-ASCII identifiers"""
    prefix, L = task
    from txdbus.error import MarshallingError
    vals = _validators()
    res = core.Result()
    ext = ''.join(dict.fromkeys(ALPHABET_Q + SPECIALS))
    tails = ['']
    for n in range(1, L + 1):
        tails += [''.join(t) for t in itertools.product(ext, repeat=n)]
    tails += ['\u041e\u0448\u0438\u0431\u043a\u0430', 'Erreur_r\xe9seau',
              'x' * 230, 'x' * 300, 'A' * (255 - len(prefix)),
              'A' * (256 - len(prefix)), 'Abc\n', 'Abc Def', 'Abc.', '9abc']
    for t in tails:
        _check_string(res, prefix + t, vals, MarshallingError)
    res.count('states', len(tails))
    res.count('nontrivial', len(tails))
    res.count('transitions', 2 * len(tails) * len(grammar.VALIDATORS))
    res.sample(prefix + tails[-1])
    return res


# -- constructor slots -------------------------------------------------------

def _slots():
    """(class name, slot name, validator, builder(value) -> message)"""
    from txdbus import message as m

    def call(**kw):
        a = dict(path='/p', member='M', interface='a.b', destination='c.d')
        a.update(kw)
        return m.MethodCallMessage(a['path'], a['member'],
                                   interface=a['interface'],
                                   destination=a['destination'])

    def sig(**kw):
        a = dict(path='/p', member='M', interface='a.b', destination='c.d')
        a.update(kw)
        return m.SignalMessage(a['path'], a['member'], a['interface'],
                               destination=a['destination'])

    return [
        ('MethodCallMessage', 'path', 'validateObjectPath',
         lambda v: call(path=v)),
        ('MethodCallMessage', 'member', 'validateMemberName',
         lambda v: call(member=v)),
        ('MethodCallMessage', 'interface', 'validateInterfaceName',
         lambda v: call(interface=v)),
        ('MethodCallMessage', 'destination', 'validateBusName',
         lambda v: call(destination=v)),
        ('SignalMessage', 'path', 'validateObjectPath',
         lambda v: sig(path=v)),
        ('SignalMessage', 'member', 'validateMemberName',
         lambda v: sig(member=v)),
        ('SignalMessage', 'interface', 'validateInterfaceName',
         lambda v: sig(interface=v)),
        ('SignalMessage', 'destination', 'validateBusName',
         lambda v: sig(destination=v)),
        ('MethodReturnMessage', 'destination', 'validateBusName',
         lambda v: m.MethodReturnMessage(5, destination=v)),
        ('ErrorMessage', 'destination', 'validateBusName',
         lambda v: m.ErrorMessage('a.b', 5, destination=v)),
        ('ErrorMessage', 'error_name', 'validateErrorName',
         lambda v: m.ErrorMessage(v, 5)),
        # the same slots with the other optional keywords given too
        ('ErrorMessage(sender=)', 'destination', 'validateBusName',
         lambda v: m.ErrorMessage('a.b', 5, destination=v, sender=':1.7')),
        ('ErrorMessage(sender=,body)', 'error_name', 'validateErrorName',
         lambda v: m.ErrorMessage(v, 5, sender='c.d', signature='s',
                                  body=['x'])),
        ('MethodReturnMessage(body)', 'destination', 'validateBusName',
         lambda v: m.MethodReturnMessage(5, body=['x'], destination=v,
                                         signature='s')),
        ('MethodCallMessage(flags)', 'member', 'validateMemberName',
         lambda v: m.MethodCallMessage('/p', v, expectReply=False,
                                       autoStart=False, signature='u',
                                       body=[1])),
        ('SignalMessage(body)', 'interface', 'validateInterfaceName',
         lambda v: m.SignalMessage('/p', 'M', v, signature='s',
                                   body=['x'])),
    ]


def _check_slot(res, cls, slot, vname, build, s):
    """A message is constructible iff the name is valid; when it is
    constructed the name on the wire must be exactly the one given."""
    from mcx import refcodec as R
    want = grammar.VALIDATORS[vname](s)
    if slot == 'path' and s == '/org/freedesktop/DBus/Local' \
            and cls == 'MethodCallMessage':
        want = False
    res.count('evaluations')
    try:
        msg = build(s)
        got = True
    except Exception as e:
        got = False
        err = e
    if not got and not want and slot == 'interface':
        # the same name once more after it has become a *known* interface
        # name (declared locally - declarations are not validated - or
        # learnt from a peer's introspection data): still not constructible
        from mcx import fakes
        from txdbus import interface as I
        with fakes.KnownInterfaces():
            try:
                I.DBusInterface(s, I.Method('M', '', ''))
                known = s in I.DBusInterface.knownInterfaces
            except Exception:
                known = False
            if known:
                res.count('evaluations')
                try:
                    msg = build(s)
                    got = True
                except Exception as e:
                    err = e
                if got:
                    res.violation(
                        'C18/ctor/%s.%s/carries-invalid-known-interface/%s'
                        % (cls, slot, _shape(s)),
                        'after an interface named %r was declared locally, '
                        '%s(%s=%r) is constructed although %s rejects the '
                        'name' % (s, cls, slot, s, vname),
                        {'kind': 'ctor', 'cls': cls, 'slot': slot,
                         'string': s}, size=len(s))
                    return
    if got and not want:
        res.violation('C18/ctor/%s.%s/carries-invalid/%s'
                      % (cls, slot, _shape(s)),
                      '%s(%s=%r) was constructed although %s rejects it'
                      % (cls, slot, s, vname),
                      {'kind': 'ctor', 'cls': cls, 'slot': slot, 'string': s},
                      size=len(s))
    elif not got and want:
        res.violation('C18/ctor/%s.%s/refuses-valid/%s'
                      % (cls, slot, _shape(s)),
                      '%s(%s=%r) raised %r although the name is valid'
                      % (cls, slot, s, err),
                      {'kind': 'ctor', 'cls': cls, 'slot': slot, 'string': s},
                      size=len(s))
    elif got:
        try:
            parsed = R.parse_message(msg.rawMessage)
            carried = parsed['fields'].get(slot)
        except R.RefError as e:
            carried = 'unparseable: %s' % e
        if carried != s:
            res.violation('C18/ctor/%s.%s/wire-differs' % (cls, slot),
                          '%s(%s=%r) carries %r on the wire'
                          % (cls, slot, s, carried),
                          {'kind': 'ctor', 'cls': cls, 'slot': slot,
                           'string': s}, size=len(s))
        elif want and slot != 'path':
            # (paths are excluded: the library takes a path through
            # ObjectPath(value), i.e. str(value), so for a path the
            # rendering *is* the name - a convention, and a loud refusal
            # when the rendering is no path)
            # the same valid name given as an instance of a str subclass
            # whose str() is not its content (str-mixin enumeration members
            # are such): it is that string which is validated and carried
            res.count('evaluations')
            try:
                msg2 = build(space._OddStr(s))
                carried = R.parse_message(msg2.rawMessage)['fields'].get(slot)
            except Exception as e:
                carried = 'raised %r' % (e,)
            if carried != s:
                res.violation('C18/ctor/%s.%s/str-subclass' % (cls, slot),
                              '%s(%s=<str subclass instance equal to %r>) '
                              'carries %r on the wire'
                              % (cls, slot, s, carried),
                              {'kind': 'ctor', 'cls': cls, 'slot': slot,
                               'string': s}, size=len(s))
    res.outcome((cls, slot, got))


def _check_same(res, s):
    """one string as interface and as destination of a call (a service
    whose interface is named like its bus name): constructible iff the
    string is both a valid interface name and a valid bus name"""
    from txdbus import message as m
    from mcx import refcodec as R
    want = grammar.valid_interface_name(s) and grammar.valid_bus_name(s)
    for cls, build in (
            ('MethodCallMessage', lambda: m.MethodCallMessage(
                '/p', 'M', interface=s, destination=s)),
            ('SignalMessage', lambda: m.SignalMessage(
                '/p', 'M', s, destination=s))):
        res.count('evaluations')
        try:
            msg = build()
            got = True
        except Exception:
            got = False
        if got != want:
            res.violation('C18/ctor/%s.interface=destination/%s/%s'
                          % (cls, 'carries-invalid' if got else
                             'refuses-valid', _shape(s)),
                          '%s(interface=%r, destination=%r) %s; as an '
                          'interface name the string is %s, as a bus name %s'
                          % (cls, s, s, 'was constructed' if got else
                             'was refused',
                             'valid' if grammar.valid_interface_name(s)
                             else 'invalid',
                             'valid' if grammar.valid_bus_name(s)
                             else 'invalid'),
                          {'kind': 'same', 'string': s}, size=len(s))
        elif got:
            f = R.parse_message(msg.rawMessage)['fields']
            if f.get('interface') != s or f.get('destination') != s:
                res.violation('C18/ctor/%s.interface=destination/wire' % cls,
                              '%s(interface=destination=%r) carries %r / %r'
                              % (cls, s, f.get('interface'),
                                 f.get('destination')),
                              {'kind': 'same', 'string': s}, size=len(s))


def _task_slots(task):
    alphabet, first, maxlen = task
    from mcx import fakes
    fakes.reset_process_state()
    res = core.Result()
    slots = _slots()
    n = 0
    for s in space.strings(alphabet, maxlen - 1):
        s = first + s
        for cls, slot, vname, build in slots:
            _check_slot(res, cls, slot, vname, build, s)
            n += 1
        _check_same(res, s)
        if grammar.valid_bus_name(s) or grammar.valid_object_path(s) \
                or grammar.valid_member_name(s):
            res.count('nontrivial')
    res.count('transitions', n)
    return res


def _task_slots_special(_):
    from mcx import fakes
    fakes.reset_process_state()
    res = core.Result()
    slots = _slots()
    specials = ['', '/org/freedesktop/DBus/Local', '/org/freedesktop/DBus',
                'org.freedesktop.DBus', ':1.5', 'a.b.c', 'a.b-c', 'a-b.c',
                'a.1b', ':a.1b', 'a..b', 'a.b.', '.a.b', 'a:b.c', ':.a',
                ':1.', '/a//b', '/a/', '//', 'a/b', 'M', 'M.N', '1M', 'M-',
                ] + _long_names()
    for s in specials + ['a-b.c', ':1.5', ':a.b', 'a.b-', 'com.ex-corp.Svc']:
        _check_same(res, s)
    for s in specials:
        for cls, slot, vname, build in slots:
            _check_slot(res, cls, slot, vname, build, s)
            res.count('transitions')
        res.count('nontrivial')
    return res


PROBES = ['', 'foo', '/a//b', '/a b', '/a/', 'a', 'a..b', '.a', '1a.b',
          'a.b-c', '/\u00e9', 'M.N', ':1.', '/ok', 'a.b', 'Member', ':1.5']


def _failing_operations():
    """(name, callable): things an application gets wrong and the library
    reports; each leaves the rules for names exactly as they were"""
    from txdbus import objects as O, interface as I, message as M, marshal
    from mcx import fakes
    ops = []

    def with_object(fn):
        def run():
            cw = fakes.ClientWorld()
            try:
                ifc = I.DBusInterface(
                    'org.ex.Aft', I.Signal('Sig', 'u'),
                    I.Signal('PathSig', 'o'),
                    I.Property('Level', 'u', writeable=True),
                    noRegister=True)

                class Obj(O.DBusObject):
                    dbusInterfaces = [ifc]
                    level = O.DBusProperty('Level')
                o = Obj('/aft')
                o.level = 1
                cw.conn.exportObject(o)
                cw.sent()
                fn(o, cw)
            finally:
                cw.close()
        return run
    ops.append(('signal with an argument of the wrong type',
                with_object(lambda o, cw: o.emitSignal('Sig', 'not-a-u'))))
    ops.append(('signal with an invalid path argument',
                with_object(lambda o, cw: o.emitSignal('PathSig', 'no/p'))))
    ops.append(('None assigned to a notifying property',
                with_object(lambda o, cw: setattr(o, 'level', None))))
    ops.append(('signal with too few arguments',
                with_object(lambda o, cw: o.emitSignal('Sig'))))
    ops.append(('unknown signal',
                with_object(lambda o, cw: o.emitSignal('NoSuch', 1))))
    ops.append(('call with an unencodable argument',
                with_object(lambda o, cw: cw.conn.callRemote(
                    '/x', 'M', signature='u', body=['s']))))
    ops.append(('message with an invalid path',
                lambda: M.MethodCallMessage('bad path', 'M')))
    ops.append(('message with an invalid member',
                lambda: M.SignalMessage('/p', 'bad.member', 'a.b')))
    ops.append(('marshal of an invalid object path',
                lambda: marshal.marshal('o', ['nope'])))
    ops.append(('marshal of an invalid signature value',
                lambda: marshal.marshal('g', ['(('])))
    ops.append(('unmarshal of truncated bytes',
                lambda: marshal.unmarshal('o', b'\x05\0\0\0/a')))
    return ops


def _task_aftermath(_):
    """after each of a list of operations that fail (and are reported), the
    validators and the constructors judge a list of names as before"""
    from txdbus.error import MarshallingError
    from txdbus import marshal
    from mcx import fakes
    fakes.reset_process_state()
    res = core.Result()
    vals = _validators()
    slots = _slots()

    def probe(tag):
        r0 = core.Result()
        for s in PROBES:
            _check_string(r0, s, vals, MarshallingError)
            for cls, slot, vname, build in slots:
                _check_slot(r0, cls, slot, vname, build, s)
            if not grammar.valid_object_path(s):
                try:
                    marshal.marshal('o', [s])
                    r0.violation('C18/marshal-o/accepts-invalid',
                                 'marshal("o", [%r]) succeeded' % s,
                                 {'kind': 'aftermath'}, size=len(s))
                except Exception:
                    pass
        for k, c in r0.counts.items():
            if k != 'violating_cases':
                res.count(k, c)
        for sig, v in r0.violations.items():
            res.violation(sig.replace('C18/', 'C18/after-failure/', 1),
                          'after %s: %s' % (tag, v['what']),
                          {'kind': 'aftermath'}, size=v['size'])
    probe('nothing')
    for name, op in _failing_operations():
        res.count('states')
        res.count('transitions')
        res.count('nontrivial')
        try:
            op()
        except Exception:
            pass
        probe(name)
    return res


def run(ctx):
    alphabet = ALPHABET_Q if ctx.quick else ALPHABET_T
    L = 6
    Lslot = 3 if ctx.quick else 4
    ctx.rule = (
        'every string of length <= %d over the class alphabet %r given to '
        'the 5 validators and compared with hand-written recognisers of the '
        'specification grammar; the 253..300 byte boundary; every string of '
        'length <= %d (and a list of special names) in each of the 11 '
        'name-carrying constructor slots, the wire content re-read by the '
        'reference parser (valid names also as instances of a str subclass '
        'whose str() differs from its content). Aftermath: after each of '
        '11 operations that fail and are reported (signals with wrong '
        'arguments, None assigned to a notifying property, unencodable '
        'calls, refused constructions, failed marshal / unmarshal) a list of '
        'names is judged as before. state = distinct string, transition = one '
        'validator/constructor call. non-trivial = string accepted by at '
        'least one grammar. Also every string of length <= %d over that '
        'alphabet extended with %r (case-folding letters, a non-ASCII digit, '
        'a fullwidth letter, NUL, LF)' % (L, alphabet, Lslot,
                                          4 if ctx.quick else 5, SPECIALS))
    ctx.bounds = {'alphabet': alphabet, 'max_len': L, 'slot_max_len': Lslot}
    ctx.assumptions = ['reference recognisers in mcx/ref/grammar.py are a '
                       'correct reading of the specification']
    tasks = [(alphabet, '', L)] + [(alphabet, ch, L) for ch in alphabet]
    # every string containing at least one special character, up to length
    # Ls, over the class alphabet extended with the specials
    Ls = 4 if ctx.quick else 5
    ext = ''.join(dict.fromkeys(ALPHABET_Q + SPECIALS))
    tasks += [(ext, ch, Ls) for ch in ext]
    ctx.map(_task_strings, tasks)
    ctx.map(_task_long, [0])
    ctx.map(_task_prefixed, [(p, 2 if ctx.quick else 3) for p in PREFIXES])
    ctx.map(_task_slots, [(alphabet, ch, Lslot) for ch in alphabet]
            + [(alphabet, '', 1)]
            + [(ext, ch, 3) for ch in SPECIALS])
    ctx.map(_task_slots_special, [0])
    ctx.map(_task_aftermath, [0])
    n = sum(len(alphabet) ** i for i in range(L + 1))
    ctx.part('validators', strings=n, complete=True)


def replay(data):
    from txdbus.error import MarshallingError
    res = core.Result()
    if data['kind'] == 'aftermath':
        res = _task_aftermath(0)
        return [(s, v['what']) for s, v in res.violations.items()]
    if data['kind'] == 'same':
        _check_same(res, data['string'])
        return [(s, v['what']) for s, v in res.violations.items()]
    if data['kind'] == 'validator':
        _check_string(res, data['string'], _validators(), MarshallingError)
    else:
        for cls, slot, vname, build in _slots():
            if cls == data['cls'] and slot == data['slot']:
                _check_slot(res, cls, slot, vname, build, data['string'])
    return [(s, v['what']) for s, v in res.violations.items()]
