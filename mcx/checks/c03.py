"""
C03 - every constructible message serialises well-formed and parses back
intact (also from the encodings another implementation would produce); the
128 MiB limit and invalid names make construction fail.
"""
import itertools

from mcx import core, space, refcodec as R, fakes
from mcx.refcodec import Var

PROP = 'C03'

BODIES = [
    ('', []), ('y', [7]), ('b', [True]), ('n', [-2]), ('q', [65535]),
    ('i', [-2**31]), ('u', [2**32 - 1]), ('x', [-2**63]), ('t', [2**64 - 1]),
    ('d', [1.5]), ('s', ['line\r\nbreak']), ('s', ['']), ('o', ['/a/b']),
    ('g', ['a{sv}']), ('v', [Var('s', 'x')]), ('v', [Var('x', 2**40)]),
    ('ay', [[1, 2, 3]]), ('as', [['a', 'bc']]), ('ax', [[]]),
    ('a{sv}', [[['k', Var('i', 1)], ['l', Var('s', 'é')]]]),
    ('(ys)', [[1, 'z']]), ('a(yx)', [[[1, 70000], [2, -1]]]),
    ('yx', [1, 2]), ('sy', ['abc', 9]), ('ts', [5, 'q']),
    ('a{sa{sv}}', [[['o', [['p', Var('d', 0.5)]]]]]),
    ('yyyy', [108, 1, 0, 1]), ('aay', [[[1], [], [2, 3]]]),
    ('sss', ['a', 'bb', 'ccc']), ('(i(sd))b', [[1, ['x', -0.0]], False]),
]


def descriptions(quick):
    """(type, kwargs-for-constructor, expected dict) for every combination."""
    member_lens = range(1, 9)
    for (sig, body), ml in itertools.product(BODIES, member_lens):
        if quick and ml > 2 and sig not in ('', 's', 'yx', 'a(yx)'):
            continue
        member = 'M' * ml
        for iface, dest in itertools.product((None, 'org.ex.If'),
                                             (None, ':1.55')):
            for flags in range(4):
                f = {'path': '/p/q', 'member': member}
                if iface:
                    f['interface'] = iface
                if dest:
                    f['destination'] = dest
                yield (1, dict(path='/p/q', member=member, interface=iface,
                               destination=dest,
                               expectReply=not flags & 1,
                               autoStart=not flags & 2),
                       dict(type=1, flags=flags, fields=f, sig=sig,
                            body=body))
            # signal (interface required)
            f = {'path': '/p/q', 'member': member, 'interface': 'org.ex.If'}
            if dest:
                f['destination'] = dest
            if iface:   # only once per iface loop
                yield (4, dict(path='/p/q', member=member,
                               interface='org.ex.If', destination=dest),
                       dict(type=4, flags=0, fields=f, sig=sig, body=body))
        if ml <= 2:
            for dest in (None, 'org.ex.Dest'):
                f = {'reply_serial': 2**32 - 1 if ml == 1 else 77}
                if dest:
                    f['destination'] = dest
                yield (2, dict(reply_serial=f['reply_serial'],
                               destination=dest),
                       dict(type=2, flags=0, fields=dict(f), sig=sig,
                            body=body))
                for sender in (None, ':1.9'):
                    f2 = dict(f)
                    f2['error_name'] = 'org.ex.Error.' + 'E' * ml
                    if sender:
                        f2['sender'] = sender
                    yield (3, dict(error_name=f2['error_name'],
                                   reply_serial=f['reply_serial'],
                                   destination=dest, sender=sender),
                           dict(type=3, flags=0, fields=f2, sig=sig,
                                body=body))


def extra_descriptions():
    """(thorough) every signature sequence with <= 2 nodes and, over the
    reduced alphabet, 3 nodes, as a method-call body, with its first two
    boundary assignments"""
    seqs = list(space.sequences(2, space.FULL)) + \
        [ts for ts in space.sequences(3, space.REDUCED)
         if sum(1 for _ in ts) >= 1][::3]
    for ts in seqs:
        sig = space.sig_of(ts)
        for vals in space.assignments(ts)[:2]:
            body = space.thaw(vals)
            for flags in (0, 3):
                f = {'path': '/p/q', 'member': 'M', 'interface': 'org.ex.If',
                     'destination': ':1.55'}
                yield (1, dict(path='/p/q', member='M',
                               interface='org.ex.If', destination=':1.55',
                               expectReply=not flags & 1,
                               autoStart=not flags & 2),
                       dict(type=1, flags=flags, fields=f, sig=sig,
                            body=body))


EMPTY_STYLES = [(None, None), ('', None), ('', []), ('', ()), (None, []),
                (None, ())]


def build(mtype, kw, exp):
    from txdbus import message as M
    ts = R.parse_sig(exp['sig'])
    # how the caller writes the body down: lists (default), tuples,
    # subclasses of the built-in types; an empty body as every combination
    # of signature None / '' and body None / [] / ()
    style = kw.get('style', 'list')
    tx = [space.to_tx(t, v, style) for t, v in zip(ts, exp['body'])]
    if style == 'tuple':
        tx = tuple(tx)
    sig = exp['sig'] or None
    body = tx if exp['sig'] else None
    if not exp['sig']:
        sig, body = EMPTY_STYLES[kw.get('empty', 0)]
    if mtype == 1:
        return M.MethodCallMessage(kw['path'], kw['member'],
                                   interface=kw['interface'],
                                   destination=kw['destination'],
                                   signature=sig, body=body,
                                   expectReply=kw['expectReply'],
                                   autoStart=kw['autoStart'])
    if mtype == 2:
        return M.MethodReturnMessage(kw['reply_serial'], body=body,
                                     destination=kw['destination'],
                                     signature=sig)
    if mtype == 3:
        return M.ErrorMessage(kw['error_name'], kw['reply_serial'],
                              destination=kw['destination'], signature=sig,
                              body=body, sender=kw['sender'])
    return M.SignalMessage(kw['path'], kw['member'], kw['interface'],
                           destination=kw['destination'], signature=sig,
                           body=body)


def compare_parsed(m, exp, serial):
    """differences between a txdbus-parsed message and the expectation"""
    diffs = []
    if getattr(m, '_messageType', None) != exp['type']:
        diffs.append('type %r' % getattr(m, '_messageType', None))
    if getattr(m, 'serial', None) != serial:
        diffs.append('serial %r != %r' % (getattr(m, 'serial', None), serial))
    if bool(getattr(m, 'expectReply', None)) != (not exp['flags'] & 1):
        diffs.append('expectReply=%r with flags %d'
                     % (getattr(m, 'expectReply', None), exp['flags']))
    if bool(getattr(m, 'autoStart', None)) != (not exp['flags'] & 2):
        diffs.append('autoStart=%r with flags %d'
                     % (getattr(m, 'autoStart', None), exp['flags']))
    for name in ('path', 'interface', 'member', 'error_name', 'reply_serial',
                 'destination', 'sender'):
        want = exp['fields'].get(name)
        got = getattr(m, name, None)
        if got != want:
            diffs.append('%s=%r, expected %r' % (name, got, want))
    want_sig = exp['sig'] or None
    got_sig = getattr(m, 'signature', None) or None
    if got_sig != want_sig:
        diffs.append('signature=%r, expected %r' % (got_sig, want_sig))
    if exp['sig']:
        want = R.as_plain(R.parse_sig(exp['sig']), exp['body'])
        if not R.same(getattr(m, 'body', None), want):
            diffs.append('body=%r, expected %r' % (getattr(m, 'body', None),
                                                   want))
    elif getattr(m, 'body', None):
        diffs.append('body=%r, expected none' % (m.body,))
    return diffs


def _key(exp):
    return 't%d/f%d/%s/%s' % (exp['type'], exp['flags'],
                              '+'.join(sorted(exp['fields'])), exp['sig'])


_FWD = {}


def forwarded(raw_for):
    """What the built-in bus hands on when one peer sends it a message (it
    parses the message, stamps the true sender and serialises it again):
    raw_for(destination) gives the bytes to send; returns (sender name,
    the parsed message the recipient got, or None)."""
    w = _FWD.get('w')
    if w is None:
        bw = fakes.BusWorld()
        a, b = bw.connect(), bw.connect()
        b.call_bus('AddMatch', 's', [''])
        b.received()
        w = _FWD['w'] = (bw, a, b)
    bw, a, b = w
    a.send_raw(raw_for(b.name))
    a.received()
    got = b.received()
    return a.name, (got[0] if len(got) == 1 else None), len(got)


def check_forwarded(res, exp, serial, raw_for, origin, rep, key):
    """the message after one trip through the bus is still the same
    well-formed message (sender stamped), whichever byte order it had"""
    res.count('transitions')
    try:
        dest_holder = []

        def mk(dest):
            dest_holder.append(dest)
            return raw_for(dest)
        sender, p2, n = forwarded(mk)
        ref = R.parse_message(raw_for(dest_holder[0]))
        probs = []
        if p2 is None:
            probs.append('copies: %d messages arrived' % n)
        else:
            want_fields = dict(ref['fields'])
            want_fields['sender'] = sender
            if p2['fields'] != want_fields:
                probs.append('header fields %r, expected %r'
                             % (p2['fields'], want_fields))
            if p2['flags'] != exp['flags']:
                probs.append('flags %d, expected %d' % (p2['flags'],
                                                        exp['flags']))
            if p2['serial'] != serial or p2['type'] != exp['type']:
                probs.append('serial/type %r/%r' % (p2['serial'], p2['type']))
            if p2['body'] != ref['body']:
                probs.append('body %r, sent as %r' % (p2['body'],
                                                      ref['body']))
    except R.RefError as e:
        probs = ['not well-formed: %s' % e]
        _FWD.clear()
    except Exception as e:
        probs = ['raised %r' % (e,)]
        _FWD.clear()
    if probs:
        res.violation('%s/forwarded/%s/%s/%s'
                      % (PROP, origin, probs[0].split()[0], key),
                      '%s message %r after a trip through the built-in bus: '
                      '%s' % (origin, rep['exp'], '; '.join(probs)), rep,
                      size=len(key))


def check_constructed(res, mtype, kw, exp, seen_serials):
    from txdbus import message as M
    res.count('evaluations')
    res.count('states')
    rep = {'part': 'construct', 'mtype': mtype, 'kw': kw,
           'exp': {'type': exp['type'], 'flags': exp['flags'],
                   'fields': exp['fields'], 'sig': exp['sig'],
                   'body': repr(exp['body'])}}
    key = _key(exp)
    try:
        msg = build(mtype, kw, exp)
    except Exception as e:
        res.violation('%s/construct-raises/%s/%s'
                      % (PROP, type(e).__name__, key),
                      'constructing %r raised %r' % (rep['exp'], e), rep,
                      size=len(key))
        return
    res.count('transitions')
    raw = msg.rawMessage
    # (a) well-formed for an independent parser
    try:
        p = R.parse_message(raw)
        problems = []
        if p['type'] != exp['type']:
            problems.append('type code %d' % p['type'])
        if p['flags'] != exp['flags']:
            problems.append('flags byte %d, requested %d'
                            % (p['flags'], exp['flags']))
        if not p['little'] and msg.endian == ord('l'):
            problems.append('endianness')
        want_fields = dict(exp['fields'])
        if exp['sig']:
            want_fields['signature'] = exp['sig']
        got_fields = dict(p['fields'])
        if not exp['sig'] and got_fields.get('signature') == '':
            # an explicit empty signature says the same as none
            del got_fields['signature']
        if got_fields != want_fields:
            problems.append('header fields %r, expected %r'
                            % (p['fields'], want_fields))
        if p['unknown_fields']:
            problems.append('unknown header fields')
        want_body = R.encode(exp['sig'], exp['body'], 0, True)
        if p['raw_body'] != want_body:
            problems.append('body bytes differ from the reference encoding')
        if raw != msg.rawHeader + msg.rawPadding + msg.rawBody:
            problems.append('rawMessage != rawHeader+rawPadding+rawBody')
        if len(msg.rawBody) != msg.bodyLength:
            problems.append('bodyLength attribute')
        if (len(msg.rawHeader) + len(msg.rawPadding)) % 8 or \
                any(msg.rawPadding) or len(msg.rawPadding) > 7:
            problems.append('header padding')
        if msg.serial != p['serial']:
            problems.append('serial attribute %r, wire %r'
                            % (msg.serial, p['serial']))
        if p['serial'] in seen_serials:
            problems.append('serial %d reused' % p['serial'])
        seen_serials.add(p['serial'])
    except R.RefError as e:
        problems = ['not well-formed: %s' % e]
    if problems:
        res.violation('%s/wire/%s/%s' % (PROP, problems[0].split()[0], key),
                      'message %r serialises badly: %s'
                      % (rep['exp'], '; '.join(problems)), rep, size=len(key))
        return
    res.outcome((exp['type'], len(msg.rawPadding), exp['flags']))
    # (b) parses back
    res.count('transitions')
    try:
        m = M.parseMessage(raw, [])
        diffs = compare_parsed(m, exp, p['serial'])
        if not isinstance(m, type(msg)):
            diffs.append('class %s' % type(m).__name__)
    except Exception as e:
        diffs = ['parseMessage raised %r' % (e,)]
    if diffs:
        res.violation('%s/parse-own/%s/%s'
                      % (PROP, diffs[0].split('=')[0].split()[0], key),
                      'parsing its own bytes for %r: %s'
                      % (rep['exp'], '; '.join(diffs)), rep, size=len(key))
        return
    # (c') the same message after a trip through the built-in bus (which
    # parses it, stamps the sender and serialises it again)
    def raw_for(dest):
        f = dict(exp['fields'])
        if exp['type'] != 4 or 'destination' in f:
            f['destination'] = dest
        return R.encode_message(exp['type'], p['serial'], f, exp['sig'],
                                exp['body'], flags=exp['flags'])
    if exp['type'] == 4 and 'destination' not in exp['fields']:
        # a broadcast: the library's own bytes go in unchanged
        check_forwarded(res, exp, p['serial'], lambda dest: raw, 'own', rep,
                        key)
    else:
        check_forwarded(res, exp, p['serial'], raw_for, 'own', rep, key)


def field_orders(names, quick):
    names = list(names)
    if len(names) <= (3 if quick else 4):
        return [list(p) for p in itertools.permutations(names)]
    out = [names, names[::-1]]
    for i in range(1, len(names)):
        out.append(names[i:] + names[:i])
    return out


def check_foreign(res, exp, serial, little, order, extra):
    """A spec-conforming foreign encoding must parse to the same content."""
    from txdbus import message as M
    res.count('evaluations')
    res.count('transitions')
    key = _key(exp)
    rep = {'part': 'foreign', 'exp': {'type': exp['type'],
                                      'flags': exp['flags'],
                                      'fields': exp['fields'],
                                      'sig': exp['sig'],
                                      'body': repr(exp['body'])},
           'serial': serial, 'little': little, 'order': order,
           'extra': [[pos, code, var.sig, repr(var.value)]
                     for pos, code, var in extra]}
    raw = R.encode_message(exp['type'], serial, exp['fields'], exp['sig'],
                           exp['body'], little=little, flags=exp['flags'],
                           field_order=order, extra_fields=extra)
    try:
        m = M.parseMessage(raw, [])
        diffs = compare_parsed(m, exp, serial)
    except Exception as e:
        diffs = ['parseMessage raised %r' % (e,)]
    if diffs:
        tag = 'unknown-field' if extra else (
            'big-endian' if not little else 'field-order')
        res.violation('%s/parse-foreign/%s/%s/%s'
                      % (PROP, tag, diffs[0].split('=')[0].split()[0], key),
                      'foreign encoding (little=%s, field order %r, unknown '
                      'fields %r) of %r: %s'
                      % (little, order, rep['extra'], rep['exp'],
                         '; '.join(diffs)), rep, size=len(key) + len(extra))
    res.outcome(('foreign', little, len(order), len(extra)))
    if diffs or extra:
        return

    def raw_for(dest):
        f = dict(exp['fields'])
        if exp['type'] != 4 or 'destination' in f:
            f['destination'] = dest
        o = [n for n in order if n in f or n == 'signature']
        if 'destination' in f and 'destination' not in o:
            o.append('destination')
        return R.encode_message(exp['type'], serial, f, exp['sig'],
                                exp['body'], little=little,
                                flags=exp['flags'], field_order=o)
    check_forwarded(res, exp, serial, raw_for,
                    'little-endian' if little else 'big-endian', rep, key)


def _task(task):
    quick, part, nparts = task
    fakes.reset_process_state()
    res = core.Result()
    seen = set()
    n = 0
    descs = descriptions(quick)
    if not quick:
        descs = itertools.chain(descs, extra_descriptions())
    for i, (mtype, kw, exp) in enumerate(descs):
        if i % nparts != part:
            continue
        n += 1
        check_constructed(res, mtype, kw, exp, seen)
        res.count('nontrivial')
        if exp['sig']:
            if i % 3 != 2:
                check_constructed(res, mtype, dict(
                    kw, style=('tuple', 'subclassed')[i % 3]), exp, seen)
        else:
            for es in range(1, len(EMPTY_STYLES)):
                if (i + es) % 4 == 0 or 'member' not in exp['fields'] or \
                        len(exp['fields']['member']) == 1:
                    check_constructed(res, mtype, dict(kw, empty=es), exp,
                                      seen)
        if len(exp['fields']['member'] if 'member' in exp['fields']
               else 'x') > 1 and exp['type'] in (1, 4):
            continue
        # foreign encodings of the same description
        names = list(exp['fields']) + (['signature'] if exp['sig'] else [])
        fexp = dict(exp)
        serial = 0x0a0d + i       # bytes 0d 0a appear in the fixed header
        for little in (True, False):
            orders = field_orders(names, quick)
            for order in orders:
                check_foreign(res, fexp, serial, little, order, [])
            # an unknown header field at every position
            for pos in range(len(names) + 1):
                for code, var in ((10, Var('s', 'future')),
                                  (255, Var('(ii)', [1, 2]))):
                    if quick and code == 255 and pos not in (0, len(names)):
                        continue
                    check_foreign(res, fexp, serial, little, names,
                                  [(pos, code, var)])
            if not quick:
                check_foreign(res, fexp, serial, little, names,
                              [(0, 10, Var('s', 'a')), (2, 11, Var('u', 5))])
            if exp['type'] != 1:
                # flag bits on returns, errors and signals: the library's
                # constructors never set them, other implementations do
                # (libdbus sends every reply with NO_REPLY_EXPECTED)
                for fl in (1, 2, 3):
                    check_foreign(res, dict(fexp, flags=fl), serial, little,
                                  names, [])
        if n % 200 == 1:
            res.sample({'type': exp['type'], 'flags': exp['flags'],
                        'fields': exp['fields'], 'signature': exp['sig'],
                        'body': repr(exp['body'])[:120]})
    return res


def _task_limits(_):
    """the 2**27 byte limit, exactly at and one byte beyond the boundary, and
    the reserved path / invalid names"""
    from txdbus import message as M
    from txdbus.error import MarshallingError
    fakes.reset_process_state()
    res = core.Result()
    limit = 2**27
    cases = [('M', limit, True), ('M', limit + 1, False),
             ('M', limit - 1, True), ('M', limit + 8, False)]
    # every header padding 0..7: the limit is on the whole message,
    # padding included
    for ml in range(2, 9):
        cases.append(('M' * ml, limit + 1, False))
        cases.append(('M' * ml, limit, True))
    overheads = {}
    for member, total, must in cases:
        res.count('evaluations')
        res.count('transitions')
        res.count('states')
        if member not in overheads:
            probe = M.MethodCallMessage('/p', member, signature='s',
                                        body=['x' * 10])
            overheads[member] = len(probe.rawMessage) - 10
        overhead = overheads[member]
        body = 'x' * (total - overhead)
        try:
            m = M.MethodCallMessage('/p', member, signature='s', body=[body])
            ok = len(m.rawMessage) == total
            built = True
            del m
        except MarshallingError:
            built = False
            ok = True
        except Exception as e:
            built = None
            ok = False
            err = e
        del body
        if built is None:
            res.violation('%s/limit/raises-%s' % (PROP, type(err).__name__),
                          'a %d byte message raised %r' % (total, err),
                          {'part': 'limit', 'total': total}, size=1)
        elif built != must or not ok:
            res.violation('%s/limit/%s' % (PROP, 'refused-at-limit' if must
                                           else 'accepted-beyond-limit'),
                          'a message of %d bytes (limit 2**27 = %d; member '
                          'length %d, i.e. header padding varies) was %s'
                          % (total, limit, len(member),
                             'constructed' if built else 'refused'),
                          {'part': 'limit', 'total': total}, size=1)
        res.outcome(('limit', total - limit, built))
        res.count('nontrivial')
    # the reserved path and a handful of invalid names per slot
    bad = [
        ('reserved path', lambda: M.MethodCallMessage(
            '/org/freedesktop/DBus/Local', 'M')),
        ('bad path', lambda: M.MethodCallMessage('/a//b', 'M')),
        ('bad path 2', lambda: M.SignalMessage('a/b', 'M', 'a.b')),
        ('bad member', lambda: M.MethodCallMessage('/a', 'M.N')),
        ('bad member 2', lambda: M.SignalMessage('/a', '', 'a.b')),
        ('bad interface', lambda: M.MethodCallMessage('/a', 'M',
                                                     interface='nodots')),
        ('bad interface 2', lambda: M.SignalMessage('/a', 'M', 'a..b')),
        ('bad destination', lambda: M.MethodReturnMessage(
            1, destination='a.b c')),
        ('bad destination 2', lambda: M.ErrorMessage(
            'a.b', 1, destination='.a.b')),
        ('bad error name', lambda: M.ErrorMessage('a.1b', 1)),
        ('bad error name 2', lambda: M.ErrorMessage('a.b.', 1)),
    ]
    # every name slot of every message type, each with a small set of
    # strings the reference grammar rejects (the other fields are valid)
    from mcx.ref import grammar as G
    INVALID = {
        'path': ('', 'a/b', '/a//b', '/a/', '/a.b', '//', '/a b'),
        'member': ('', 'M.N', '1M', 'M-N', 'M N', 'M' * 256),
        'interface': ('', 'nodots', 'a..b', '.a.b', 'a.b.', 'a.1b', 'a.b-c',
                      'a.b c', 'a.b\n', 'a.' + 'b' * 254),
        'destination': ('', 'nodots', 'a..b', '.a.b', 'a.b.', 'a.1b',
                        'a.b c', 'a.b\n', 'a:b.c', ':', ':1', ':1..2',
                        'a.' + 'b' * 254),
        'error_name': ('', 'nodots', 'a..b', '.a.b', 'a.b.', 'a.1b', 'a.b-c',
                       'a.b c', 'a.' + 'b' * 254),
    }
    KIND = {'path': 'validateObjectPath', 'member': 'validateMemberName',
            'interface': 'validateInterfaceName',
            'destination': 'validateBusName',
            'error_name': 'validateErrorName'}
    # plus every one-character mutation (insert at the front, in the middle,
    # at the end; replace the last character) of a valid name with a
    # character from the classes names are built from or commonly confused
    # with, kept when the reference grammar rejects the result
    VALID = {'path': '/ab/c', 'member': 'Mem', 'interface': 'ab.cd',
             'destination': 'ab.cd', 'error_name': 'ab.cd'}
    for slot, base in VALID.items():
        extra = []
        for ch in ('\n', '\r', ' ', '\0', '.', '-', ':', '/', '\xe9', '1',
                   '\t', '$'):
            mid = len(base) // 2
            for m in (ch + base, base[:mid] + ch + base[mid:], base + ch,
                      base[:-1] + ch):
                if not G.VALIDATORS[KIND[slot]](m) and m not in extra \
                        and m not in INVALID[slot]:
                    extra.append(m)
        INVALID[slot] = tuple(INVALID[slot]) + tuple(extra)
    for slot, vals in INVALID.items():
        for v in vals:
            if G.VALIDATORS[KIND[slot]](v):
                raise core.HarnessError('%r is a valid %s' % (v, slot))
    BUILDERS = {
        'call': (('path', 'member', 'interface', 'destination'),
                 lambda k: M.MethodCallMessage(
                     k.get('path', '/a'), k.get('member', 'M'),
                     interface=k.get('interface', 'a.b'),
                     destination=k.get('destination', 'a.b'))),
        'call-min': (('path', 'member'),
                     lambda k: M.MethodCallMessage(
                         k.get('path', '/a'), k.get('member', 'M'))),
        'return': (('destination',),
                   lambda k: M.MethodReturnMessage(
                       1, destination=k['destination'])),
        'return-body': (('destination',),
                        lambda k: M.MethodReturnMessage(
                            1, destination=k['destination'], signature='s',
                            body=['x'])),
        'error': (('error_name', 'destination'),
                  lambda k: M.ErrorMessage(
                      k.get('error_name', 'a.b'), 1,
                      destination=k.get('destination', 'a.b'))),
        'error-min': (('error_name',),
                      lambda k: M.ErrorMessage(k['error_name'], 1)),
        'signal': (('path', 'member', 'interface', 'destination'),
                   lambda k: M.SignalMessage(
                       k.get('path', '/a'), k.get('member', 'M'),
                       k.get('interface', 'a.b'),
                       destination=k.get('destination', 'a.b'))),
        'signal-min': (('path', 'member', 'interface'),
                       lambda k: M.SignalMessage(
                           k.get('path', '/a'), k.get('member', 'M'),
                           k.get('interface', 'a.b'))),
    }
    for bname, (slots, build) in sorted(BUILDERS.items()):
        build({s: {'path': '/a', 'member': 'M', 'interface': 'a.b',
                   'destination': 'a.b', 'error_name': 'a.b'}[s]
               for s in slots})      # the valid instance does construct
        for slot in slots:
            for v in INVALID[slot]:
                bad.append(('bad %s %s=%r' % (slot, bname, v),
                            (lambda build=build, slot=slot, v=v:
                             build({slot: v}))))
    for name, f in bad:
        res.count('evaluations')
        res.count('transitions')
        res.count('states')
        try:
            f()
            res.violation('%s/invalid-name/%s/%s' % (
                              PROP, name.split()[1],
                              name.split()[2].split('=')[0]
                              if '=' in name else '-'),
                          '%s: a message was constructed' % name,
                          {'part': 'badname', 'name': name}, size=1)
        except MarshallingError:
            pass
        except Exception as e:
            res.violation('%s/invalid-name-exc/%s' % (PROP,
                                                      type(e).__name__),
                          '%s: raised %r instead of MarshallingError'
                          % (name, e), {'part': 'badname', 'name': name},
                          size=1)
    return res


def _task_fd_sequences(_):
    """several descriptor-carrying calls built one after the other in one
    process: every one is well-formed on its own (one unix_fds field, the
    right count) and the calls without descriptors in between carry none"""
    from txdbus import message as M
    fakes.reset_process_state()
    res = core.Result()
    bodies = [('h', [5]), ('', []), ('hh', [6, 7]), ('s', ['x']),
              ('ah', [[8, 9, 10]]), ('(hs)', [[11, 'y']]), ('h', [12])]
    for order in itertools.permutations(range(len(bodies)), 3):
        res.count('states')
        res.count('nontrivial')
        for k in order:
            sig, body = bodies[k]
            res.count('transitions')
            res.count('evaluations')
            fds = []
            try:
                m = M.MethodCallMessage('/p', 'M', signature=sig or None,
                                        body=body if sig else None,
                                        oobFDs=fds)
                p = R.parse_message(m.rawMessage, fds=list(fds))
                nf = sig.count('h') if sig != 'ah' else 3
                probs = []
                if p['fields'].get('unix_fds', 0) != nf:
                    probs.append('declares %r descriptors, carries %d'
                                 % (p['fields'].get('unix_fds'), nf))
                if len(fds) != nf:
                    probs.append('collected descriptors %r' % (fds,))
                if sig and p['body'] != body:
                    probs.append('body resolves to %r' % (p['body'],))
                pm = M.parseMessage(m.rawMessage, list(fds))
                if sig and pm.body != body:
                    probs.append('parseMessage body %r' % (pm.body,))
            except R.RefError as e:
                probs = ['not well-formed: %s' % e]
            except Exception as e:
                probs = ['raised %r' % (e,)]
            if probs:
                res.violation(
                    '%s/fd-sequence/%s' % (PROP, probs[0].split()[0]),
                    'calls with bodies %r built in this order; the one with '
                    '%r: %s' % ([bodies[i][0] for i in order], sig,
                                '; '.join(probs)),
                    {'part': 'fdseq', 'order': list(order)}, size=3)
                break
    res.sample({'descriptor_call_sequences': 'every ordered triple of %d '
                'bodies' % len(bodies)})
    return res


def run(ctx):
    ctx.rule = (
        '4 message types x every subset of optional constructor fields x the '
        '4 flag combinations (calls) x %d bodies covering every first-'
        'argument alignment x member lengths 1..8 (every header padding '
        '0..7). Each constructed message is parsed by the reference parser '
        '(type, flags, typed header fields, padding, body length, body bytes,'
        ' fresh serial) and by parseMessage; for each description the '
        'foreign encodings - both byte orders, header fields in every '
        'permutation (<= %d fields, rotations+reversal beyond), an unknown '
        'field code at every position - are parsed by parseMessage. Plus the'
        ' 2**27 limit at -1/0/+1/+8 bytes with real 128 MiB messages, the '
        'reserved path and invalid names; bodies written as lists, tuples '
        'and subclasses of the built-in types, the empty body as every '
        'combination of signature None / \'\' and body None / [] / (); 66000 (thorough 140000) messages '
        'built in a row (with refused constructions of seven kinds in '
        'between), every serial fresh and non-zero. state = message description; '
        'transition = one construct/parse call'
        % (len(BODIES), 3 if ctx.quick else 4))
    ctx.bounds = {'bodies': len(BODIES), 'member_lengths': '1..8'}
    ctx.assumptions = ['mcx/refcodec.parse_message/encode_message follow the '
                       'specification']
    n = ctx.jobs * 2
    ctx.map(_task, [(ctx.quick, i, n) for i in range(n)])
    ctx.map(_task_limits, [0])
    ctx.map(_task_fd_sequences, [0])
    ctx.map(_task_nested_construction, [0])
    ctx.map(_task_serials, [ctx.quick])


def _task_serials(task):
    """a long-lived process: every one of N messages built in a row (all four
    types, parsed with the reference parser at the ladder points) carries a
    serial that no earlier message of the process carried, and never zero"""
    from txdbus import message as M
    from mcx import scale
    quick = task
    res = core.Result()
    n = 66000 if quick else 140000
    marks = set(scale.ladder(n)) | {n - 1}
    seen = set()
    rep = {'part': 'serials'}
    ctor = [lambda: M.SignalMessage('/a', 'S', 'a.b'),
            lambda: M.MethodCallMessage('/a', 'M'),
            lambda: M.MethodReturnMessage(5),
            lambda: M.ErrorMessage('a.b.E', 5),
            lambda: M.SignalMessage('/a', 'S', 'a.b', signature='s',
                                    body=['x']),
            lambda: M.MethodCallMessage('/a', 'M', signature='u', body=[1]),
            lambda: M.MethodReturnMessage(5, signature='as', body=[['y']]),
            lambda: M.ErrorMessage('a.b.E', 5, signature='s', body=['t'])]
    want_fields = [{'path', 'member', 'interface'}, {'path', 'member'},
                   {'reply_serial'}, {'error_name', 'reply_serial'}]
    want_fields = want_fields + [f | {'signature'} for f in want_fields]
    # constructions that are refused, at every stage of the encoding (body
    # not fitting its signature, value out of range, NUL in a string,
    # invalid names, invalid path): they must not disturb the numbering of
    # the messages that are built
    refused = [lambda: M.MethodCallMessage('/a', 'M', signature='i',
                                           body=['x']),
               lambda: M.SignalMessage('/a', 'S', 'a.b', signature='y',
                                       body=[256]),
               lambda: M.MethodReturnMessage(5, signature='s',
                                             body=['a\0b']),
               lambda: M.MethodCallMessage('/a', 'M', interface='nodots'),
               lambda: M.MethodCallMessage('no/slash', 'M'),
               lambda: M.ErrorMessage('a.b.E', 5, signature='as',
                                      body=[[1]]),
               lambda: M.SignalMessage('/a', 'S', 'a.b', signature='(ii)',
                                       body=[7]),
               # descriptors in messages that have no descriptor list
               lambda: M.SignalMessage('/a', 'S', 'a.b', signature='h',
                                       body=[5]),
               lambda: M.MethodReturnMessage(5, signature='sh',
                                             body=['x', 3]),
               lambda: M.ErrorMessage('a.b.E', 5, signature='ah',
                                      body=[[4, 5]])]
    res.count('states')
    res.count('nontrivial')
    for i in range(n):
        res.count('transitions')
        if i < 2000 or i % 97 == 0:
            for k in range(1 + i % 3):
                try:
                    seen.add(refused[(i + k) % len(refused)]().serial)
                except Exception:
                    pass
        m = ctor[i % 8]()
        ser = m.serial
        if i < 3000 or i in marks or i - 1 in marks or i + 1 in marks:
            res.count('evaluations')
            p = R.parse_message(m.rawMessage)
            if set(p['fields']) != want_fields[i % 8] or \
                    p['unknown_fields']:
                res.violation('%s/serials/header-fields' % PROP,
                              'message %d of the process (a %s built after '
                              'refused constructions) carries the header '
                              'fields %r, expected %r'
                              % (i, type(m).__name__, sorted(p['fields']),
                                 sorted(want_fields[i % 8])), rep, size=1)
                break
            if p['serial'] != ser:
                res.violation('%s/serials/attribute' % PROP,
                              'message %d of the process: serial attribute '
                              '%r, wire %r' % (i, ser, p['serial']), rep,
                              size=1)
                break
        if not ser or ser in seen:
            res.violation('%s/serials/%s' % (PROP, 'reused' if ser else
                                              'zero'),
                          'message number %d built in this process got '
                          'serial %r, which %s' % (
                              i, ser, 'an earlier message already had'
                              if ser else 'is not a valid serial'), rep,
                          size=1)
            break
        seen.add(ser)
    return res


def _task_nested_construction(_):
    """a message constructed while another one is being constructed (a body
    value whose attribute is computed on demand and, in computing it, emits
    a signal): both are well-formed and every serial is fresh"""
    from txdbus import message as M
    fakes.reset_process_state()
    res = core.Result()

    def builders():
        yield 'call', lambda body: M.MethodCallMessage(
            '/p', 'M', signature='(su)', body=[body])
        yield 'return', lambda body: M.MethodReturnMessage(
            5, signature='(su)', body=[body])
        yield 'signal', lambda body: M.SignalMessage(
            '/p', 'S', 'a.b', signature='(su)', body=[body])
        yield 'error', lambda body: M.ErrorMessage(
            'a.b.E', 6, signature='(su)', body=[body])
        yield 'call-variant', lambda body: M.MethodCallMessage(
            '/p', 'M', signature='v', body=[body])

    for outer_name, outer in builders():
        for inner_name, inner in builders():
            res.count('states')
            res.count('evaluations')
            res.count('transitions', 4)
            res.count('nontrivial')
            made = []

            class Lazy:
                dbusOrder = ['name', 'value']
                dbusSignature = '(su)'
                name = 'n'

                @property
                def value(self):
                    if not made:
                        made.append(None)
                        made[0] = inner(['inner', 1])
                    return 7
            rep = {'part': 'nested', 'outer': outer_name,
                   'inner': inner_name}
            try:
                before = M.MethodCallMessage('/p', 'Before')
                o = outer(Lazy())
                after = M.MethodCallMessage('/p', 'After')
                msgs = [before, o] + [m for m in made if m is not None] + \
                    [after]
                serials = []
                for m in msgs:
                    p = R.parse_message(m.rawMessage)
                    serials.append(p['serial'])
                    if p['serial'] != m.serial:
                        raise R.RefError('serial attribute %r, wire %r'
                                         % (m.serial, p['serial']))
                if len(made) != 1 or made[0] is None:
                    raise core.HarnessError('the lazy value was not read')
                if 0 in serials or len(set(serials)) != len(serials):
                    res.violation(
                        '%s/nested-construction/serial' % PROP,
                        'a %s constructed while a %s was being constructed: '
                        'serials (before, outer, inner, after) = %r'
                        % (inner_name, outer_name, serials), rep, size=1)
            except core.HarnessError:
                raise
            except Exception as e:
                res.violation('%s/nested-construction/%s'
                              % (PROP, type(e).__name__),
                              'a %s constructed while a %s was being '
                              'constructed: %r' % (inner_name, outer_name,
                                                   e), rep, size=1)
    return res


def replay(data):
    res = core.Result()
    fakes.reset_process_state()
    env = {'Var': Var, 'nan': float('nan'), 'inf': float('inf')}
    if data['part'] == 'construct':
        exp = dict(data['exp'])
        exp['body'] = eval(exp['body'], env)
        check_constructed(res, data['mtype'], data['kw'], exp, set())
    elif data['part'] == 'foreign':
        exp = dict(data['exp'])
        exp['body'] = eval(exp['body'], env)
        extra = [(pos, code, Var(sig, eval(val, env)))
                 for pos, code, sig, val in data['extra']]
        check_foreign(res, exp, data['serial'], data['little'],
                      data['order'], extra)
    elif data['part'] == 'fdseq':
        res = _task_fd_sequences(0)
    elif data['part'] == 'serials':
        res = _task_serials(True)
    elif data['part'] == 'nested':
        res = _task_nested_construction(0)
    else:
        res = _task_limits(0)
    return [(s, v['what']) for s, v in res.violations.items()]
