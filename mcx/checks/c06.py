"""
C06 - the bus authenticates a peer only after a mechanism accepted it and
BEGIN followed; every other line sequence is answered as the authentication
state machine prescribes; real mechanisms accept right and refuse wrong
credentials.
"""
import binascii
import hashlib
import itertools
import os
import shutil
import tempfile

from mcx import core, explore, fakes, space, refcodec as R

PROP = 'C06'
CHAL = [b'chal-0', b'chal-1', b'chal-2', b'chal-3']

# effective scripts of a mechanism: k challenges, then a verdict
SCRIPTS = [('OK',), ('REJECT',), ('CONTINUE', 'OK'), ('CONTINUE', 'REJECT'),
           ('CONTINUE', 'CONTINUE', 'OK'), ('CONTINUE', 'CONTINUE', 'REJECT'),
           ('CONTINUE', 'CONTINUE', 'CONTINUE')]

LINES = [
    b'AUTH', b'AUTH EXTERNAL', b'AUTH EXTERNAL 6162', b'AUTH BOGUS',
    b'AUTH BOGUS 6162', b'DATA', b'DATA 6162', b'CANCEL', b'ERROR',
    b'ERROR "text"', b'BEGIN', b'NEGOTIATE_UNIX_FD', b'FOO', b'',
]
MALFORMED = [b'AUTH EXTERNAL zz', b'DATA zz', b'DATA 616', b'\xff\xfe']


class RefServer:
    """The server side of the specification's authentication state machine."""

    def __init__(self, script, offered=(b'EXTERNAL',)):
        self.script = script
        self.offered = tuple(offered)
        self.state = 'auth'          # auth | data | begin | closed | authed
        self.pos = 0
        self.rejects = 0

    def key(self):
        return (self.state, self.pos, self.rejects)

    def _reject(self):
        self.rejects += 1
        self.pos = 0
        if self.rejects > 5:
            self.state = 'closed'
            return ['CLOSE']
        self.state = 'auth'
        return ['REJECTED']

    def _step(self):
        verdict = self.script[self.pos] if self.pos < len(self.script) \
            else 'REJECT'
        if verdict == 'OK':
            self.state = 'begin'
            return ['OK']
        if verdict == 'CONTINUE':
            out = ['DATA:%d' % self.pos]
            self.pos += 1
            self.state = 'data'
            return out
        return self._reject()

    def line(self, line):
        """-> list of expected output classes"""
        cmd, _, arg = line.partition(b' ')
        if self.state == 'auth':
            if cmd == b'AUTH':
                parts = arg.split()
                if not parts or parts[0] not in self.offered:
                    return self._reject()
                self.pos = 0
                return self._step()
            if cmd == b'BEGIN':
                self.state = 'closed'
                return ['CLOSE']
            if cmd == b'ERROR':
                return self._reject()
            return ['ERROR']
        if self.state == 'data':
            if cmd == b'DATA':
                return self._step()
            if cmd == b'BEGIN':
                self.state = 'closed'
                return ['CLOSE']
            if cmd in (b'CANCEL', b'ERROR'):
                return self._reject()
            return ['ERROR']
        if self.state == 'begin':
            if cmd == b'BEGIN':
                self.state = 'authed'
                return ['AUTHENTICATED']
            if cmd in (b'CANCEL', b'ERROR'):
                return self._reject()
            if cmd == b'NEGOTIATE_UNIX_FD':
                return ['ERROR|AGREE_UNIX_FD']
            return ['ERROR']
        return []


STOCK = (b'EXTERNAL', b'DBUS_COOKIE_SHA1', b'ANONYMOUS')


def _mk_scripted(script, log, offered=STOCK):
    from txdbus import authentication as A
    from zope.interface import implementer

    @implementer(A.IBusAuthenticationMechanism)
    class Scripted:
        def __init__(self):
            self.n = 0
            log.append('new')

        def getMechanismName(self):
            return 'EXTERNAL'

        def init(self, protocol):
            pass

        def step(self, arg):
            v = script[self.n] if self.n < len(script) else 'REJECT'
            k = self.n
            self.n += 1
            log.append('step:%s' % v)
            if v == 'CONTINUE':
                return ('CONTINUE', CHAL[k])
            if v == 'OK':
                return ('OK', None)
            return ('REJECTED', None)

        def getUserName(self):
            return 'scripted-user'

        def cancel(self):
            log.append('cancel')

    class Auth(A.BusAuthenticator):
        # the documented way for an application to choose what its bus
        # offers: a subclass with its own mechanism table
        authenticators = {name: Scripted for name in offered}
    return Auth


def make_server(auth_cls, creds=True):
    from txdbus import protocol as P
    from twisted.internet.protocol import Factory

    class Rec(P.BasicDBusProtocol):
        _client = False
        authenticator = auth_cls

        def __init__(self):
            self.auth_calls = 0
            self.msgs = 0

        def connectionAuthenticated(self):
            self.auth_calls += 1

        def rawDBusMessageReceived(self, raw):
            self.msgs += 1

    class B:
        uuid = fakes.GUID
    f = Factory()
    f.bus = B()
    p = Rec()
    p.factory = f
    t = fakes.FakeTransport()
    p.makeConnection(t)
    return p, t


def classify(out_lines, closed, offered=STOCK):
    """library output lines -> classes comparable with the model"""
    res = []
    for l in out_lines:
        cmd, _, arg = l.partition(b' ')
        if cmd == b'REJECTED':
            mechs = set(arg.split())
            if mechs != set(offered) or len(arg.split()) != len(mechs):
                res.append('REJECTED-with-mechs-%r' % sorted(mechs))
            else:
                res.append('REJECTED')
        elif cmd == b'ERROR':
            res.append('ERROR')
        elif cmd == b'DATA':
            try:
                k = CHAL.index(binascii.unhexlify(arg.strip()))
                res.append('DATA:%d' % k)
            except Exception:
                res.append('DATA:?%r' % arg)
        elif cmd == b'OK':
            res.append('OK' if arg.strip() == fakes.GUID else 'OK-bad-guid')
        elif cmd == b'AGREE_UNIX_FD':
            res.append('AGREE_UNIX_FD')
        else:
            res.append('?%r' % l)
    if closed:
        res.append('CLOSE')
    return res


class W:
    pass


class AuthScenario(explore.Scenario):
    name = 'C06/server-machine'

    def build(self):
        w = W()
        w.log = []
        script = tuple(self.params['script'])
        w.offered = tuple(x.encode() for x in self.params['offered']) \
            if self.params.get('offered') else STOCK
        w.p, w.t = make_server(_mk_scripted(script, w.log, w.offered))
        w.model = RefServer(script, w.offered)
        w.dead = False
        w.p.dataReceived(b'\0')
        return w

    def enabled(self, w):
        if w.model.state in ('closed', 'authed') or w.dead:
            return []
        evs = [('l', i) for i in range(len(LINES))]
        if self.params.get('malformed'):
            evs += [('m', i) for i in range(len(MALFORMED))]
        return evs

    def deviation(self, ev):
        return 0

    def apply(self, w, ev):
        malformed = ev[0] == 'm'
        line = (MALFORMED if malformed else LINES)[ev[1]]
        if b'EXTERNAL' not in w.offered:
            # the line alphabet names the first mechanism on offer where
            # the stock alphabet names EXTERNAL (which then is one more
            # mechanism this bus does not offer, next to BOGUS)
            line = line.replace(b'EXTERNAL', w.offered[0]) \
                if ev[1] % 2 else line
        before = w.model.key()
        w.t.take()
        was_closing = w.t.disconnecting
        exc = None
        try:
            w.p.dataReceived(line + b'\r\n')
        except Exception as e:
            exc = e
        out = [l for l in w.t.take().split(b'\r\n') if l]
        closed = w.t.disconnecting and not was_closing
        got = classify(out, closed, w.offered)
        tag = '%s/%s' % (before[0], line.split(b' ')[0].decode('latin-1')
                         or 'empty')
        if malformed:
            # only: never authenticated; answered ERROR/REJECTED or dropped
            w.dead = True
            if w.p.auth_calls:
                return [('%s/malformed/authenticated/%s' % (PROP, tag),
                         'malformed line %r in state %r authenticated the '
                         'peer' % (line, before))]
            if exc is None and not closed and not any(
                    g in ('ERROR', 'REJECTED') for g in got):
                return [('%s/malformed/unanswered/%s' % (PROP, tag),
                         'malformed line %r in state %r: output %r'
                         % (line, before, got))]
            return []
        if exc is not None:
            return [('%s/raises-%s/%s' % (PROP, type(exc).__name__, tag),
                     'line %r in state %r raised %r' % (line, before, exc))]
        want = w.model.line(line)
        viol = []
        authed_now = want == ['AUTHENTICATED']
        if authed_now:
            want = []
        ok = False
        if want == ['CLOSE']:
            # the sixth rejection / BEGIN out of turn: closed, with or
            # without a last REJECTED/ERROR line
            ok = got and got[-1] == 'CLOSE' and all(
                g in ('REJECTED', 'ERROR') for g in got[:-1])
        elif len(want) == 1 and '|' in want[0]:
            ok = len(got) == 1 and got[0] in want[0].split('|')
        else:
            ok = got == want
        if not ok:
            viol.append(('%s/reply/%s/expected=%s/got=%s'
                         % (PROP, tag, '+'.join(want) or 'nothing',
                            '+'.join(got) or 'nothing'),
                         'line %r in state %r (script %r): expected %r, the '
                         'bus answered %r' % (line, before,
                                              self.params['script'], want,
                                              got)))
        want_auth = 1 if w.model.state == 'authed' else 0
        if w.p.auth_calls != want_auth:
            viol.append(('%s/authenticated/%s/%d-times'
                         % (PROP, tag, w.p.auth_calls),
                         'after line %r in state %r connectionAuthenticated '
                         'ran %d times, expected %d'
                         % (line, before, w.p.auth_calls, want_auth)))
        return viol

    def canon(self, w):
        a = getattr(w.p, '_dbusAuth', None)
        return (w.model.key(), w.dead,
                explore.impl_digest(a, ignore=('protocol', 'server_guid',
                                               'mechanisms', 'reject_msg')),
                tuple(w.log[-3:]))

    def nontrivial(self, hist):
        return len(hist) > 1


# ---------------------------------------------------------------------------
# part 2: real mechanisms against a spec-conforming reference client

def _real_auth(keyring):
    from txdbus import authentication as A

    class Cookie(A.BusCookieAuthenticator):
        def _step_one(self, username, keyring_dir=None):
            return A.BusCookieAuthenticator._step_one(self, username, keyring)

    class Auth(A.BusAuthenticator):
        authenticators = dict(A.BusAuthenticator.authenticators)
    Auth.authenticators[b'DBUS_COOKIE_SHA1'] = Cookie
    return Auth


class Conv:
    """drives one server conversation line by line"""

    def __init__(self, keyring, creds=True):
        from txdbus import protocol as P
        self.saved = getattr(P, '_is_linux', None)
        if self.saved is None and not creds:
            raise LookupError('no way to withhold peer credentials')
        if self.saved is not None:
            P._is_linux = bool(creds)
        self.p, self.t = make_server(_real_auth(keyring))
        self.p.dataReceived(b'\0')
        self.exc = None

    def send(self, line):
        self.t.take()
        try:
            self.p.dataReceived(line + b'\r\n')
        except Exception as e:
            self.exc = e
            return ['EXC:%r' % (e,)]
        return [l for l in self.t.take().split(b'\r\n') if l]

    def close(self):
        from txdbus import protocol as P
        if self.saved is not None:
            P._is_linux = self.saved


def _cookie_reply(keyring, data_line, wrong=None):
    """what a conforming client answers to the cookie challenge"""
    payload = binascii.unhexlify(data_line.split(b' ', 1)[1].strip())
    ctx, cid, chal = payload.split()
    cookie = None
    with open(os.path.join(keyring, ctx.decode())) as f:
        for l in f:
            i, _, c = l.split()
            if i.encode() == cid:
                cookie = c.encode()
    cc = binascii.hexlify(hashlib.sha1(b'client').digest())
    h = binascii.hexlify(hashlib.sha1(chal + b':' + cc + b':' + cookie)
                         .digest())
    if wrong == 'hash':
        h = binascii.hexlify(hashlib.sha1(b'nope').digest())
    if wrong == 'challenge':
        return cc + b' ' + binascii.hexlify(hashlib.sha1(
            b'x:' + cc + b':' + cookie).digest())
    if wrong == 'one-token':
        return cc
    if wrong == 'three-tokens':
        return cc + b' ' + h + b' x'
    if wrong == 'blank':
        return b' '
    if wrong == 'empty-hash':
        return cc + b' '
    if wrong == 'swapped':
        return h + b' ' + cc
    return cc + b' ' + h


def _keyring_left(keyring):
    left = []
    for fn in os.listdir(keyring):
        with open(os.path.join(keyring, fn)) as f:
            left += [l for l in f.read().splitlines() if l.strip()]
    return left


def real_mechanism_cases():
    import getpass
    user = binascii.hexlify(getpass.getuser().encode())
    uid = binascii.hexlify(str(os.getuid()).encode())
    cases = []
    # (name, creds, script(conv, keyring) -> (accepted?, notes), must_accept)
    def external(initial, answer):
        def run(c, k):
            out = c.send(b'AUTH EXTERNAL' + (b' ' + initial if initial
                                             else b''))
            n = 0
            while out and out[0].startswith(b'DATA') and n < 4:
                out = c.send(answer)
                n += 1
            return out
        return run
    for ini, ans in ((uid, b'DATA'), (None, b'DATA'), (None, b'DATA ' + uid),
                     (uid, b'DATA ' + uid)):
        cases.append(('EXTERNAL/creds/initial=%s/answer=%s'
                      % (bool(ini), ans.decode()[:6].strip()), True,
                      external(ini, ans), True))
        cases.append(('EXTERNAL/no-creds/initial=%s' % bool(ini), False,
                      external(ini, ans), False))

    def cookie(wrong, userhex=user):
        def run(c, k):
            out = c.send(b'AUTH DBUS_COOKIE_SHA1 ' + userhex)
            if not out or not out[0].startswith(b'DATA'):
                return out
            return c.send(b'DATA ' + binascii.hexlify(
                _cookie_reply(k, out[0], wrong)))
        return run
    cases.append(('COOKIE/right', True, cookie(None), True))
    cases.append(('COOKIE/right/uid', True, cookie(None, uid), True))
    for wrong in ('hash', 'challenge', 'one-token', 'three-tokens', 'blank',
                  'empty-hash', 'swapped'):
        cases.append(('COOKIE/wrong-' + wrong, True, cookie(wrong), False))
    cases.append(('COOKIE/unknown-user', True,
                  cookie(None, binascii.hexlify(b'no-such-user-xyz')), False))
    cases.append(('COOKIE/no-user', True,
                  lambda c, k: c.send(b'AUTH DBUS_COOKIE_SHA1'), False))

    def cookie_cancel(step):
        def run(c, k):
            out = c.send(b'AUTH DBUS_COOKIE_SHA1 ' + user)
            if step == 1:
                return c.send(b'CANCEL')
            out = c.send(b'DATA ' + binascii.hexlify(_cookie_reply(k, out[0])))
            return c.send(b'CANCEL')
        return run
    cases.append(('COOKIE/cancel-after-challenge', True, cookie_cancel(1),
                  False))
    cases.append(('COOKIE/cancel-after-ok', True, cookie_cancel(2), False))
    cases.append(('ANONYMOUS', True,
                  lambda c, k: c.send(b'AUTH ANONYMOUS'), True))
    cases.append(('ANONYMOUS/trace', False,
                  lambda c, k: c.send(b'AUTH ANONYMOUS 74786462'), True))
    return cases


class CookieScenario(explore.Scenario):
    """Several connections running DBUS_COOKIE_SHA1 exchanges against one
    keyring, steps interleaved in every order: a conforming client with the
    right cookie is accepted whatever the others do, and the keyring holds
    exactly the cookies of the exchanges still waiting for a response."""
    name = 'C06/cookie-concurrency'

    def build(self):
        import getpass
        w = W()
        w.keyring = tempfile.mkdtemp(prefix='mcx-keyring-')
        os.chmod(w.keyring, 0o700)
        w.user = binascii.hexlify(getpass.getuser().encode())
        w.convs = [Conv(w.keyring, True)
                   for _ in range(self.params['connections'])]
        w.state = ['idle'] * len(w.convs)
        w.challenge = [None] * len(w.convs)
        w.rounds = [0] * len(w.convs)
        return w

    def close(self, w):
        for c in w.convs:
            c.close()
        shutil.rmtree(w.keyring, ignore_errors=True)

    def enabled(self, w):
        evs = []
        for i, st in enumerate(w.state):
            if st == 'idle' and w.rounds[i] < self.params['rounds']:
                evs.append(('auth', i))
            elif st == 'data':
                evs += [('respond', i), ('wrong', i), ('cancel', i)]
            elif st == 'ok':
                evs += [('begin', i), ('cancel', i)]
        return evs

    def apply(self, w, ev):
        kind, i = ev
        c = w.convs[i]
        viol = []
        tag = '%s/others=%s' % (kind, '+'.join(sorted(
            s for j, s in enumerate(w.state) if j != i)))
        if kind == 'auth':
            w.rounds[i] += 1
            out = c.send(b'AUTH DBUS_COOKIE_SHA1 ' + w.user)
            if len(out) == 1 and out[0].startswith(b'DATA '):
                w.state[i] = 'data'
                w.challenge[i] = out[0]
            else:
                viol.append(('%s/cookie/no-challenge/%s' % (PROP, tag),
                             'AUTH DBUS_COOKIE_SHA1 was answered %r' % (out,)))
        elif kind in ('respond', 'wrong'):
            try:
                reply = _cookie_reply(w.keyring, w.challenge[i],
                                      'hash' if kind == 'wrong' else None)
            except Exception as e:
                return [('%s/cookie/lookup-failed/%s' % (PROP, tag),
                         'a conforming client cannot find the cookie the '
                         'challenge %r names: %r' % (w.challenge[i], e))]
            out = c.send(b'DATA ' + binascii.hexlify(reply))
            ok = len(out) == 1 and out[0] == b'OK ' + fakes.GUID
            rej = len(out) == 1 and out[0].startswith(b'REJECTED')
            if kind == 'respond' and not ok:
                viol.append(('%s/cookie/right-response-refused/%s'
                             % (PROP, tag),
                             'connection %d answered its challenge with the '
                             'right cookie (other connections: %r) and got %r'
                             % (i, w.state, out)))
            if kind == 'wrong' and not rej:
                viol.append(('%s/cookie/wrong-response-accepted/%s'
                             % (PROP, tag),
                             'a wrong response was answered %r' % (out,)))
            w.state[i] = 'ok' if ok else 'idle'
        elif kind == 'cancel':
            out = c.send(b'CANCEL')
            if not (len(out) == 1 and out[0].startswith(b'REJECTED')):
                viol.append(('%s/cookie/cancel/%s' % (PROP, tag),
                             'CANCEL was answered %r' % (out,)))
            w.state[i] = 'idle'
        elif kind == 'begin':
            c.send(b'BEGIN')
            if c.p.auth_calls != 1:
                viol.append(('%s/cookie/begin/%s' % (PROP, tag),
                             'BEGIN after OK did not authenticate'))
            w.state[i] = 'authed'
        if c.exc is not None:
            viol.append(('%s/cookie/raises-%s/%s'
                         % (PROP, type(c.exc).__name__, tag),
                         '%r on connection %d (states %r) raised %r'
                         % (kind, i, w.state, c.exc)))
            c.exc = None
        # the keyring: one cookie per exchange still waiting, ids distinct
        left = _keyring_left(w.keyring)
        ids = [l.split()[0] for l in left]
        want = sum(1 for s in w.state if s == 'data')
        if len(ids) != len(set(ids)):
            viol.append(('%s/cookie/duplicate-id/%s' % (PROP, tag),
                         'the keyring holds cookie ids %r' % (ids,)))
        elif len(ids) != want:
            viol.append(('%s/cookie/keyring-count/%s' % (PROP, tag),
                         'after %r on connection %d the keyring holds %d '
                         'cookie(s), %d exchange(s) are waiting for a '
                         'response (states %r)' % (kind, i, len(ids), want,
                                                   w.state)))
        return viol

    def canon(self, w):
        # the keyring content is state too: which ids are taken decides what
        # the next exchange is given
        ids = tuple(sorted(l.split()[0] for l in _keyring_left(w.keyring)))
        # ... and which exchange holds which cookie
        held = []
        for st, c in zip(w.state, w.challenge):
            if st == 'data' and c:
                held.append(binascii.unhexlify(c.split(b' ', 1)[1].strip())
                            .split()[1])
            else:
                held.append(None)
        return (tuple(w.state), tuple(w.rounds), ids, tuple(held))

    def nontrivial(self, hist):
        return len({e[1] for e in hist}) > 1


def _task_real(_):
    res = core.Result()
    for name, creds, script, must in real_mechanism_cases():
        for then in ('BEGIN', 'retry-then-BEGIN'):
            k = tempfile.mkdtemp(prefix='mcx-keyring-')
            os.chmod(k, 0o700)
            try:
                c = Conv(k, creds)
            except LookupError:
                shutil.rmtree(k, ignore_errors=True)
                continue        # credentials cannot be withheld any more
            try:
                res.count('transitions')
                res.count('evaluations')
                res.count('states')
                res.count('nontrivial')
                try:
                    out = script(c, k)
                except Exception as e:
                    out = ['EXC:%r' % (e,)]
                    c.exc = c.exc or e
                if then != 'BEGIN' and not must:
                    # a rejected exchange must not help a second one
                    try:
                        out = script(c, k)
                    except Exception as e:
                        out = ['EXC:%r' % (e,)]
                        c.exc = c.exc or e
                elif then != 'BEGIN':
                    continue
                ok_line = bool(out) and isinstance(out[0], bytes) and \
                    out[0].startswith(b'OK ')
                if ok_line:
                    c.send(b'BEGIN')
                accepted = c.p.auth_calls == 1
                rep = {'part': 'real', 'case': name, 'then': then}
                if c.exc is not None:
                    res.violation('%s/real/%s/raises-%s'
                                  % (PROP, name, type(c.exc).__name__),
                                  '%s: the exchange raised %r'
                                  % (name, c.exc), rep, size=1)
                elif accepted != must:
                    res.violation('%s/real/%s/%s'
                                  % (PROP, name, 'accepted' if accepted
                                     else 'refused'),
                                  '%s (%s): the peer was %s; last answer %r'
                                  % (name, then, 'authenticated' if accepted
                                     else 'not authenticated', out), rep,
                                  size=1)
                left = _keyring_left(k)
                if left:
                    res.violation('%s/real/%s/cookie-left' % (PROP, name),
                                  '%s: cookies left in the keyring after the '
                                  'exchange: %r' % (name, left), rep, size=1)
                res.outcome((name, accepted))
            finally:
                c.close()
                shutil.rmtree(k, ignore_errors=True)
    res.sample({'real_mechanism_cases':
                [c[0] for c in real_mechanism_cases()][:8]})
    return res


def run_many_cookies(n, order, rounds):
    """n connections waiting for the answer to a cookie challenge at the same
    time (a busy bus): the keyring holds n cookies with distinct ids; the
    right response is accepted on every one, in the given order, and the
    cookie of an answered exchange is gone; finished connections are
    replaced by new exchanges for `rounds` rounds"""
    import getpass
    viol = []
    k = tempfile.mkdtemp(prefix='mcx-keyring-')
    os.chmod(k, 0o700)
    user = binascii.hexlify(getpass.getuser().encode())
    convs = []
    try:
        waiting = []
        for i in range(n):
            c = Conv(k, True)
            convs.append(c)
            out = c.send(b'AUTH DBUS_COOKIE_SHA1 ' + user)
            if len(out) != 1 or not out[0].startswith(b'DATA '):
                viol.append(('many-cookies/no-challenge',
                             'exchange %d of %d simultaneous ones: AUTH was '
                             'answered %r' % (i, n, out)))
                return viol
            waiting.append((c, out[0]))
        for rnd in range(rounds + 1):
            ids = [l.split()[0] for l in _keyring_left(k)]
            if len(ids) != len(waiting) or len(set(ids)) != len(ids):
                viol.append(('many-cookies/keyring/%s' % (
                    'duplicate-id' if len(set(ids)) != len(ids) else
                    'count'),
                    '%d exchanges are waiting for a response; the keyring '
                    'holds the cookie ids %r' % (len(waiting), sorted(
                        ids, key=lambda x: (len(x), x))[:40])))
                return viol
            if order == 'ascending':
                seq = list(range(len(waiting)))
            elif order == 'descending':
                seq = list(range(len(waiting)))[::-1]
            else:
                seq = list(range(0, len(waiting), 2)) + \
                    list(range(1, len(waiting), 2))
            if rnd < rounds:
                seq = seq[:len(seq) // 2]
            done = set()
            for j in seq:
                c, chal = waiting[j]
                try:
                    reply = _cookie_reply(k, chal)
                except Exception as e:
                    viol.append(('many-cookies/lookup-failed',
                                 'a conforming client cannot find its '
                                 'cookie among %d: %r' % (len(waiting), e)))
                    return viol
                out = c.send(b'DATA ' + binascii.hexlify(reply))
                if len(out) != 1 or not out[0].startswith(b'OK '):
                    viol.append(('many-cookies/right-response-refused',
                                 'exchange %d of %d simultaneous ones (round '
                                 '%d, %s order) answered the challenge with '
                                 'the right cookie and got %r'
                                 % (j, len(waiting), rnd, order, out)))
                    return viol
                c.send(b'BEGIN')
                if c.p.auth_calls != 1:
                    viol.append(('many-cookies/not-authenticated',
                                 'exchange %d: OK and BEGIN, but the peer is '
                                 'not authenticated' % j))
                    return viol
                done.add(j)
            waiting = [w for j, w in enumerate(waiting) if j not in done]
            if rnd < rounds:
                for i in range(len(done)):
                    c = Conv(k, True)
                    convs.append(c)
                    out = c.send(b'AUTH DBUS_COOKIE_SHA1 ' + user)
                    if len(out) != 1 or not out[0].startswith(b'DATA '):
                        viol.append(('many-cookies/no-challenge',
                                     'round %d: AUTH was answered %r'
                                     % (rnd, out)))
                        return viol
                    waiting.append((c, out[0]))
        left = _keyring_left(k)
        if left:
            viol.append(('many-cookies/cookie-left',
                         'every exchange completed; the keyring still holds '
                         '%r' % (left[:5],)))
    except Exception as e:
        viol.append(('many-cookies/raises-%s' % type(e).__name__,
                     '%d simultaneous exchanges: raised %r' % (n, e)))
    finally:
        for c in convs:
            c.close()
        shutil.rmtree(k, ignore_errors=True)
    return viol


def command_dictionary():
    """words a peer might try as commands, derived from the names the
    authentication classes themselves define (every suffix of every
    attribute name at an underscore boundary), minus the six commands of
    the protocol"""
    from txdbus import authentication as A
    words = set()
    for cls in (A.BusAuthenticator, A.BusCookieAuthenticator,
                A.BusExternalAuthenticator, A.BusAnonymousAuthenticator,
                A.ClientAuthenticator):
        for n in dir(cls):
            parts = n.strip('_').split('_')
            for i in range(len(parts)):
                w = '_'.join(parts[i:])
                if w and w.isascii() and ' ' not in w:
                    words.add(w)
    real = {'AUTH', 'CANCEL', 'BEGIN', 'DATA', 'ERROR', 'NEGOTIATE_UNIX_FD'}
    return sorted(w for w in words if w not in real and w.upper() not in
                  real or w in ('auth', 'begin', 'data', 'cancel'))


def _task_dictionary(task):
    """every word of the dictionary, bare and with an argument, in each of
    the three waiting states of the server: answered ERROR like any unknown
    command, nothing authenticated, and the exchange continues from where
    it was"""
    part, nparts = task
    res = core.Result()
    words = command_dictionary()[part::nparts]
    for w in words:
        for arg in (b'', b' 6162'):
            line = w.encode() + arg
            for state, script, prelude in (
                    ('auth', ('OK',), []),
                    ('data', ('CONTINUE', 'OK'), [b'AUTH EXTERNAL']),
                    ('begin', ('OK',), [b'AUTH EXTERNAL'])):
                res.count('states')
                res.count('transitions', 3)
                res.count('evaluations')
                res.count('nontrivial')
                log = []
                p, t = make_server(_mk_scripted(script, log))
                model = RefServer(script)
                try:
                    p.dataReceived(b'\0')
                    for l in prelude:
                        p.dataReceived(l + b'\r\n')
                        model.line(l)
                    t.take()
                    p.dataReceived(line + b'\r\n')
                    got = classify([l for l in t.take().split(b'\r\n')
                                    if l], t.disconnecting)
                    want = model.line(line)
                    # and the exchange goes on as if nothing had been said
                    cont = {'auth': b'AUTH EXTERNAL', 'data': b'DATA 6162',
                            'begin': b'BEGIN'}[state]
                    p.dataReceived(cont + b'\r\n')
                    got2 = classify([l for l in t.take().split(b'\r\n')
                                     if l], t.disconnecting)
                    want2 = model.line(cont)
                    if want2 == ['AUTHENTICATED']:
                        want2 = []
                    authed = 1 if model.state == 'authed' else 0
                    ok = got == want and got2 == want2 and \
                        p.auth_calls == authed
                    what = 'answered %r then %r to %r (expected %r then ' \
                        '%r), authenticated %d times (expected %d)' % (
                            got, got2, cont, want, want2, p.auth_calls,
                            authed)
                except Exception as e:
                    ok = False
                    what = 'raised %r' % (e,)
                if not ok:
                    res.violation('%s/dictionary/%s' % (PROP, state),
                                  'the line %r in state %r: %s'
                                  % (line, state, what),
                                  {'part': 'dictionary'}, size=len(w))
    return res


MANY = [9, 10, 11, 12, 20, 21, 99, 100, 101, 128, 256, 257]


def _task_many_cookies(n):
    res = core.Result()
    for order in ('ascending', 'descending', 'interleaved'):
        for rounds in (0, 2):
            res.count('states')
            res.count('transitions', n * 3)
            res.count('evaluations')
            res.count('nontrivial')
            for t, w in run_many_cookies(n, order, rounds):
                res.violation('%s/%s' % (PROP, t), w,
                              {'part': 'many-cookies',
                               'args': [n, order, rounds]}, size=n)
    return res


class RealAuthScenario(explore.Scenario):
    """the same state machine over the *real* mechanisms (their cancel /
    step bookkeeping included): peer credentials present, the cookie
    exchange always answered with a wrong response"""
    name = 'C06/real-machine'

    def build(self):
        import getpass
        w = W()
        w.keyring = tempfile.mkdtemp(prefix='mcx-keyring-')
        os.chmod(w.keyring, 0o700)
        w.conv = Conv(w.keyring, True)
        user = binascii.hexlify(getpass.getuser().encode())
        uid = binascii.hexlify(str(os.getuid()).encode())
        w.uid = uid
        w.mech = None
        w.lines = [b'AUTH EXTERNAL ' + uid, b'AUTH ANONYMOUS',
                   b'AUTH DBUS_COOKIE_SHA1 ' + user, b'AUTH',
                   b'AUTH NOPE 6162', b'DATA 6162', b'DATA', b'CANCEL',
                   b'ERROR', b'BEGIN', b'FOO']
        # EXTERNAL asks for (empty) data once before it accepts
        w.scripts = {b'EXTERNAL': ('CONTINUE', 'OK'), b'ANONYMOUS': ('OK',),
                     b'DBUS_COOKIE_SHA1': ('CONTINUE', 'REJECT')}
        w.model = RefServer(('REJECT',))
        w.dead = False
        return w

    def close(self, w):
        w.conv.close()
        shutil.rmtree(w.keyring, ignore_errors=True)

    def enabled(self, w):
        if w.model.state in ('closed', 'authed') or w.dead:
            return []
        return [('l', i) for i in range(len(w.lines))]

    def apply(self, w, ev):
        line = w.lines[ev[1]]
        before = w.model.key()
        tag = '%s/%s' % (before[0], b' '.join(line.split(b' ')[:2])
                         .decode('latin-1'))
        m = w.model
        # the reference machine with the script of the mechanism named
        cmd, _, arg = line.partition(b' ')
        if m.state == 'auth' and cmd == b'AUTH':
            name = arg.split()[0] if arg.split() else None
            if name in w.scripts:
                m.script = w.scripts[name]
                w.mech = name
                m.pos = 0
                want = m._step()
            else:
                want = m._reject()
        else:
            # (whom the data names is not compared: the bus goes by the
            # peer credentials alone, which the statement allows)
            want = m.line(line)
        was_closing = w.conv.t.disconnecting
        out = w.conv.send(line)
        if w.conv.exc is not None:
            w.dead = True
            return [('%s/real-machine/raises-%s/%s'
                     % (PROP, type(w.conv.exc).__name__, tag),
                     'line %r in state %r raised %r' % (line, before,
                                                        w.conv.exc))]
        closed = w.conv.t.disconnecting and not was_closing
        got = []
        for l in out:
            c = l.split(b' ')[0]
            got.append('DATA:0' if c == b'DATA' else c.decode('latin-1'))
        if closed:
            got.append('CLOSE')
        viol = []
        if want == ['AUTHENTICATED']:
            want = []
        if want == ['CLOSE']:
            ok = got and got[-1] == 'CLOSE' and all(
                g in ('REJECTED', 'ERROR') for g in got[:-1])
        else:
            ok = got == want
        if not ok:
            viol.append(('%s/real-machine/reply/%s/expected=%s/got=%s'
                         % (PROP, tag, '+'.join(want) or 'nothing',
                            '+'.join(got) or 'nothing'),
                         'line %r in state %r: expected %r, the bus '
                         'answered %r' % (line, before, want, out)))
        want_auth = 1 if m.state == 'authed' else 0
        if w.conv.p.auth_calls != want_auth:
            viol.append(('%s/real-machine/authenticated/%s' % (PROP, tag),
                         'after %r in state %r connectionAuthenticated ran '
                         '%d times, expected %d' % (line, before,
                                                    w.conv.p.auth_calls,
                                                    want_auth)))
        left = _keyring_left(w.keyring)
        if m.state in ('auth', 'begin', 'authed') and left:
            # (a connection closed in mid-exchange cleans up when the
            # transport reports the loss, which is not part of this search)
            viol.append(('%s/real-machine/cookie-left/%s' % (PROP, tag),
                         'after %r in state %r (no exchange in progress) the '
                         'keyring still holds %r' % (line, before, left)))
        return viol

    def canon(self, w):
        a = getattr(w.conv.p, '_dbusAuth', None)
        # the fields left out of the digest below hold random / timed
        # values; whether each is set is still part of the state, and so is
        # what the keyring holds
        shape = []
        objs = [a] + [v for v in (vars(a).values() if a is not None else ())
                      if hasattr(v, '__dict__') and type(v).__module__
                      .split('.')[0] in ('txdbus', 'mcx')]
        for o in objs:
            if o is not None:
                shape += sorted((type(o).__name__, k, v is None)
                                for k, v in vars(o).items())
        return (w.model.key(), w.dead, w.model.script, w.mech, tuple(shape),
                len(_keyring_left(w.keyring)),
                explore.impl_digest(a, ignore=(
                    'protocol', 'server_guid', 'mechanisms', 'reject_msg',
                    'challenge_str', 'cookie', 'cookie_id', 'timestamp',
                    'lock_file', 'cookie_file', 'keyring_dir')))

    def nontrivial(self, hist):
        return len(hist) > 1


# ---------------------------------------------------------------------------
# part 3: framing of the line phase

def _transcript(script, lines, cuts):
    """outputs of a conversation delivered as one stream cut at `cuts`"""
    log = []
    p, t = make_server(_mk_scripted(script, log))
    data = b'\0' + b''.join(l + b'\r\n' for l in lines)
    exc = None
    for ch in space.chunks(data, cuts):
        if not ch:
            continue
        try:
            p.dataReceived(ch)
        except Exception as e:
            exc = type(e).__name__
            break
    return (t.written(), t.disconnecting, p.auth_calls, exc)


def _task_framing(task):
    quick = task
    res = core.Result()
    # first byte
    for first in (b'A', b'\x01', b'\r', b'AUTH ANONYMOUS\r\nBEGIN\r\n'):
        p, t = make_server(_mk_scripted(('OK',), []))
        try:
            p.dataReceived(first)
            p.dataReceived(b'AUTH EXTERNAL\r\nBEGIN\r\n') \
                if not t.disconnecting else None
        except Exception:
            pass
        res.count('transitions')
        if not t.disconnecting or p.auth_calls:
            res.violation('%s/framing/no-nul' % PROP,
                          'first byte %r: connection %s, authenticated %d '
                          'times' % (first[:1], 'closed' if t.disconnecting
                                     else 'kept', p.auth_calls),
                          {'part': 'framing'}, size=1)
    # the 16 KiB line limit
    for n, terminated, must_close in ((16384, True, False),
                                      (16385, True, True),
                                      (16385, False, True),
                                      (16384, False, False),
                                      (40000, False, True)):
        p, t = make_server(_mk_scripted(('OK',), []))
        line = b'AUTH ' + b'A' * (n - 5)
        assert len(line) == n
        try:
            p.dataReceived(b'\0' + line + (b'\r\n' if terminated else b''))
        except Exception:
            pass
        res.count('transitions')
        answered = b'REJECTED' in t.written()
        bad = (t.disconnecting != must_close) or \
            (terminated and not must_close and not answered)
        if bad:
            res.violation('%s/framing/line-limit/%d/%s'
                          % (PROP, n, 'terminated' if terminated else 'open'),
                          'a %d byte line (%s): closed=%s answered=%s'
                          % (n, 'terminated' if terminated else
                             'unterminated', t.disconnecting, answered),
                          {'part': 'framing'}, size=1)
    # a peer that pipelines: BEGIN and a lot of message bytes (more than
    # the line limit, which is about lines) in one read - it is
    # authenticated and its bytes are messages
    from mcx.checks import c04
    for nbytes in (10000, 16384, 20000, 70000):
        for split in (False, True):
            p, t = c04.make_server()
            big = R.encode_message(
                1, 2, {'path': '/org/freedesktop/DBus', 'member': 'AddMatch',
                       'interface': 'org.freedesktop.DBus',
                       'destination': 'org.freedesktop.DBus'}, 's',
                ['x' * nbytes])
            hello = R.encode_message(
                1, 1, {'path': '/org/freedesktop/DBus', 'member': 'Hello',
                       'interface': 'org.freedesktop.DBus',
                       'destination': 'org.freedesktop.DBus'})
            res.count('transitions')
            try:
                if split:
                    p.dataReceived(b'\0AUTH ANONYMOUS\r\n')
                    p.dataReceived(b'BEGIN\r\n' + hello + big)
                else:
                    p.dataReceived(b'\0AUTH ANONYMOUS\r\nBEGIN\r\n' + hello
                                   + big)
                state = (t.disconnecting, p.auth_calls, len(p.got))
            except Exception as e:
                state = ('raised %r' % (e,),)
            if state != (False, 1, 2):
                res.violation('%s/framing/pipelined-after-begin' % PROP,
                              'BEGIN followed in the same read by %d bytes of '
                              'messages: (closed, authenticated, messages '
                              'delivered) = %r, expected (False, 1, 2)'
                              % (len(hello + big), state),
                              {'part': 'framing'}, size=1)
    # differential: any cut of the stream gives the same transcript
    depth = 2 if quick else 3
    pool = [LINES[i] for i in (1, 2, 3, 5, 6, 7, 8, 10, 11, 12, 13)]
    n_exec = 0
    for script in (('OK',), ('CONTINUE', 'OK'), ('REJECT',)):
        for lines in itertools.product(pool, repeat=depth):
            base = _transcript(script, lines, ())
            total = 1 + sum(len(l) + 2 for l in lines)
            cutsets = [(c,) for c in range(1, total)]
            if not quick:
                cutsets.append(tuple(range(1, total)))
            for cuts in cutsets:
                got = _transcript(script, lines, cuts)
                n_exec += 1
                if got != base:
                    res.violation(
                        '%s/framing/cut-changes-transcript' % PROP,
                        'script %r, lines %r: cut at %r gives %r, unsplit '
                        'gives %r' % (script, lines, cuts, got, base),
                        {'part': 'framing'}, size=len(cuts) + len(lines))
    res.count('transitions', n_exec)
    res.count('evaluations', n_exec)
    res.count('traces', n_exec)
    res.count('nontrivial', n_exec)
    res.count('states', 3 * len(pool) ** depth)
    return res


def run(ctx):
    ctx.rule = (
        'part 1: breadth-first search to the fixpoint over sequences of %d '
        'authentication lines (+%d malformed ones) for each of the %d '
        'effective mechanism scripts (k challenges then accept / reject), '
        'each reply compared with the specification\'s server state machine '
        '(REJECTED + mechanism list, ERROR, DATA <hex challenge>, OK <guid>, '
        'close on BEGIN out of turn and on the 6th rejection) and '
        'connectionAuthenticated() counted; state = (protocol state, script '
        'position, rejection count, digest of the authenticator); the same '
        'for buses whose authenticator subclass offers one, two other, or '
        'four mechanisms (the REJECTED list is the offered set); every word '
        'derived from the attribute names of the authentication classes, '
        'bare and with an argument, in each waiting state: an unknown '
        'command like any other. part 2: '
        'the real EXTERNAL / DBUS_COOKIE_SHA1 / ANONYMOUS mechanisms against '
        'a conforming reference client with right, wrong (7 shapes) and '
        'cancelled exchanges, keyring in a scratch directory; 2-3 '
        'connections running cookie exchanges against one keyring with their '
        'steps (AUTH, right / wrong response, CANCEL, BEGIN) interleaved in '
        'every order: the right response is always accepted and the keyring '
        'holds exactly one distinct cookie per waiting exchange; %s cookie '
        'exchanges waiting at the same time, answered in ascending / '
        'descending / interleaved order with finished ones replaced by new '
        'ones. part 3: first '
        'byte, the 16384/16385 byte line limit, and every single cut%s of '
        'every %d-line conversation gives the unsplit transcript'
        % (len(LINES), len(MALFORMED), len(SCRIPTS), MANY,
           '' if ctx.quick else ' (and byte-at-a-time)',
           2 if ctx.quick else 3))
    ctx.assumptions = [
        'peer credentials are what the fake socket reports; pwd lookups use '
        'the real user database',
        'an exception escaping dataReceived drops the connection (Twisted)']
    for script in SCRIPTS:
        explore.explore(ctx, AuthScenario,
                        {'script': list(script), 'malformed': True},
                        max_depth=30, label='script ' + '-'.join(script))
    for offered in (['ANONYMOUS'], ['X_CUSTOM', 'EXTERNAL'],
                    ['DBUS_COOKIE_SHA1', 'ANONYMOUS'],
                    ['EXTERNAL', 'DBUS_COOKIE_SHA1', 'ANONYMOUS', 'X_MORE']):
        for script in (SCRIPTS[0], SCRIPTS[3]) if ctx.quick else SCRIPTS:
            explore.explore(ctx, AuthScenario,
                            {'script': list(script), 'malformed': True,
                             'offered': offered}, max_depth=30,
                            label='bus offering %s, script %s'
                            % ('+'.join(offered), '-'.join(script)))
    explore.explore(ctx, RealAuthScenario, {}, max_depth=30,
                    label='real mechanisms, wrong cookie response')
    explore.explore(ctx, CookieScenario,
                    {'connections': 2 if ctx.quick else 3,
                     'rounds': 2 if ctx.quick else 2},
                    max_depth=14 if ctx.quick else 18,
                    label='cookie exchanges on a shared keyring',
                    max_states=50000)
    if ctx.quick:
        explore.explore(ctx, CookieScenario, {'connections': 3, 'rounds': 1},
                        max_depth=10,
                        label='3 cookie exchanges on a shared keyring')
    ctx.map(_task_real, [0])
    ctx.map(_task_framing, [ctx.quick])
    ctx.map(_task_many_cookies, MANY)
    ctx.map(_task_dictionary, [(i, 8) for i in range(8)])
    ctx.bounds = {'scripts': len(SCRIPTS), 'lines': len(LINES)}


def replay(data):
    if 'scenario' in data:
        return explore.replay_violation(data)
    if data.get('part') == 'dictionary':
        res = core.Result()
        for i in range(8):
            res.merge(_task_dictionary((i, 8)))
        return [(s, v['what']) for s, v in res.violations.items()]
    if data.get('part') == 'many-cookies':
        return [('%s/%s' % (PROP, t), w)
                for t, w in run_many_cookies(*data['args'])]
    if data.get('part') == 'real':
        res = _task_real(0)
    else:
        res = _task_framing(True)
    return [(s, v['what']) for s, v in res.violations.items()]
