"""
C13 - built-in bus: a name has one live owner; ownership follows the request
flags; release / disconnect hand the name to the longest-waiting client.

Explicit-state search over histories of RequestName (8 flag values),
ReleaseName and disconnects by K scripted clients of a real Bus, compared
step by step with a reference model of the name table; after every step the
owner and queue of every name are read back through GetNameOwner and
ListQueuedOwners.
"""
from mcx import core, explore, fakes, refcodec as R

PROP = 'C13'
NAMES = ['com.ex.A', 'com.ex.B']


class Model:
    """Reference name table, written from the statement."""

    def __init__(self, k, names):
        self.alive = [True] * k
        self.owner = {n: None for n in names}
        self.waiters = {n: [] for n in names}
        self.allow = {n: {} for n in names}     # client -> allow_replacement

    def key(self):
        return (tuple(self.alive),
                tuple((n, self.owner[n], tuple(self.waiters[n]),
                       tuple(sorted(self.allow[n].items())))
                      for n in sorted(self.owner)))

    def request(self, c, n, flags):
        """-> (reply, acquired_by, lost_by, replaced_owner)"""
        allow, replace, noqueue = bool(flags & 1), bool(flags & 2), \
            bool(flags & 4)
        o = self.owner[n]
        if o is None:
            self.owner[n] = c
            self.allow[n][c] = allow
            return 1, c, None, None
        if o == c:
            self.allow[n][c] = allow
            return 4, None, None, None
        if replace and self.allow[n].get(o):
            if c in self.waiters[n]:
                self.waiters[n].remove(c)
            self.owner[n] = c
            self.allow[n][c] = allow
            del self.allow[n][o]
            return 1, c, o, o
        if noqueue:
            if c in self.waiters[n]:
                self.waiters[n].remove(c)
                del self.allow[n][c]
            return 3, None, None, None
        if c not in self.waiters[n]:
            self.waiters[n].append(c)
        self.allow[n][c] = allow
        return 2, None, None, None

    def _promote(self, n):
        if self.waiters[n]:
            new = self.waiters[n].pop(0)
            self.owner[n] = new
            return new
        self.owner[n] = None
        return None

    def release(self, c, n):
        """-> (reply, acquired_by)"""
        if self.owner[n] is None:
            return 2, None
        if self.owner[n] == c:
            del self.allow[n][c]
            return 1, self._promote(n)
        if c in self.waiters[n]:
            self.waiters[n].remove(c)
            del self.allow[n][c]
            return 1, None
        return 3, None

    def disconnect(self, c):
        """-> list of (name, acquired_by)"""
        self.alive[c] = False
        out = []
        for n in sorted(self.owner):
            if self.owner[n] == c:
                del self.allow[n][c]
                new = self._promote(n)
                if new is not None:
                    out.append((n, new))
            elif c in self.waiters[n]:
                self.waiters[n].remove(c)
                del self.allow[n][c]
        return out


class World:
    pass


class NameScenario(explore.Scenario):
    name = 'C13/names'

    def build(self):
        k = self.params['clients']
        names = NAMES[:self.params['names']]
        w = World()
        w.bw = fakes.BusWorld()
        w.peers = [w.bw.connect(hello=i not in self.params.get('nohello', ()))
                   for i in range(k)]
        w.names = names
        w.model = Model(k, names)
        w.uniq = [p.name for p in w.peers]
        w.has_rule = set()
        return w

    def enabled(self, w):
        evs = []
        flagset = self.params.get('flags', list(range(8)))
        for c, p in enumerate(w.peers):
            if not w.model.alive[c]:
                continue
            for n in range(len(w.names)):
                for f in flagset:
                    evs.append(('req', c, n, f))
                evs.append(('rel', c, n))
            evs.append(('disc', c))
            if self.params.get('rules'):
                # the same connections also add and remove a match rule
                evs.append(('rmmatch', c) if c in w.has_rule
                           else ('addmatch', c))
        return evs

    def _sender(self, w, c, salt):
        """what client c writes into the SENDER field of its request: by
        default nothing; with 'forge', in turn another client's unique name,
        a unique name nobody has, the name being asked for, its own"""
        if not self.params.get('forge'):
            return None
        k = (c + salt) % 4
        if k == 0:
            return w.uniq[(c + 1) % len(w.uniq)] or ':1.1'
        if k == 1:
            return ':1.4242'
        if k == 2:
            return w.names[0]
        return w.uniq[c] or ':1.77'

    # -- helpers -----------------------------------------------------------
    def _drain(self, w):
        """messages received by every peer since the last drain; complains
        about anything written to a peer that is gone"""
        out, bad = {}, []
        for c, p in enumerate(w.peers):
            try:
                msgs = p.received()
            except R.RefError as e:
                bad.append(('%s/garbled-output' % PROP,
                            'bus wrote bytes to client %d that do not parse: '
                            '%s' % (c, e)))
                msgs = []
            if msgs and not w.model.alive[c]:
                bad.append(('%s/write-to-dead-client' % PROP,
                            'the bus wrote %d message(s) to disconnected '
                            'client %d: %r' % (len(msgs), c,
                                               [_brief(m) for m in msgs])))
            out[c] = msgs
        return out, bad

    def _reply_of(self, msgs, serial):
        rs = [m for m in msgs if m['type'] in (2, 3)
              and m['fields'].get('reply_serial') == serial]
        return rs

    def apply(self, w, ev):
        kind = ev[0]
        viol = []
        m = w.model
        before = m.key()
        acquired = []      # (client, name) expected NameAcquired
        replaced = None
        caller = None
        serial = None
        want_reply = None
        try:
            if kind == 'req':
                _, c, ni, flags = ev
                n = w.names[ni]
                want_reply, acq, lost, replaced = m.request(c, n, flags)
                if acq is not None:
                    acquired.append((acq, n))
                caller = c
                serial = w.peers[c].call_bus('RequestName', 'su', [n, flags],
                                             sender=self._sender(w, c, flags))
            elif kind == 'rel':
                _, c, ni = ev
                n = w.names[ni]
                want_reply, acq = m.release(c, n)
                if acq is not None:
                    acquired.append((acq, n))
                caller = c
                serial = w.peers[c].call_bus('ReleaseName', 's', [n],
                                             sender=self._sender(w, c, 1))
            elif kind == 'disc':
                _, c = ev
                for n, acq in m.disconnect(c):
                    acquired.append((acq, n))
                w.peers[c].disconnect()
                w.has_rule.discard(c)
            elif kind in ('addmatch', 'rmmatch'):
                _, c = ev
                s_ = w.peers[c].call_bus(
                    'AddMatch' if kind == 'addmatch' else 'RemoveMatch', 's',
                    ["type='signal',interface='a.b'"])
                if kind == 'addmatch':
                    w.has_rule.add(c)
                else:
                    w.has_rule.discard(c)
                got, bad = self._drain(w)
                rs = self._reply_of(got[c], s_)
                if len(rs) != 1 or rs[0]['type'] != 2:
                    bad.append(('%s/%s' % (PROP, kind),
                                '%s answered %r' % (kind, [_brief(r)
                                                           for r in rs])))
                return bad + self._lookups(w, before, ev, None,
                                           'rules', None)
        except Exception as e:
            return [('%s/%s/raises-%s' % (PROP, kind, type(e).__name__),
                     'event %r in state %r raised %r' % (ev, before, e))]
        got, bad = self._drain(w)
        viol.extend(bad)
        st = _state_tag(before, ev, w)
        # the caller's reply
        if caller is not None:
            rs = self._reply_of(got[caller], serial)
            if len(rs) != 1 or rs[0]['type'] != 2 or \
                    rs[0]['body'] != [want_reply]:
                viol.append((
                    '%s/%s/%s/expected=%s/got=%s'
                    % (PROP, kind, st, want_reply,
                       [(r['type'], r['body']) for r in rs]),
                    '%r in state %r: expected one reply %r, got %r'
                    % (ev, before, want_reply,
                       [_brief(r) for r in rs])))
        # NameAcquired goes to exactly the clients that became owner
        for c, msgs in got.items():
            acqs = sorted(mm['body'][0] for mm in msgs
                          if mm['type'] == 4
                          and mm['fields'].get('member') == 'NameAcquired')
            want = sorted(n for (cc, n) in acquired if cc == c)
            if acqs != want and w.model.alive[c]:
                viol.append((
                    '%s/%s/%s/NameAcquired' % (PROP, kind, st),
                    '%r in state %r: client %d was told NameAcquired for %r, '
                    'expected %r' % (ev, before, c, acqs, want)))
        # read the table back
        viol.extend(self._lookups(w, before, ev, replaced, st,
                                  ev[2] if kind == 'req' else None))
        return viol

    def _lookups(self, w, before, ev, replaced, st, replaced_ni):
        viol = []
        m = w.model
        asker = next((i for i, a in enumerate(m.alive) if a), None)
        if asker is None:
            return viol
        p = w.peers[asker]
        for ni, n in enumerate(w.names):
            s1 = p.call_bus('GetNameOwner', 's', [n])
            s2 = p.call_bus('ListQueuedOwners', 's', [n])
            msgs = p.received()
            r1 = self._reply_of(msgs, s1)
            r2 = self._reply_of(msgs, s2)
            want_owner = m.owner[n]
            if want_owner is None:
                ok1 = len(r1) == 1 and r1[0]['type'] == 3
                ok2 = len(r2) == 1 and r2[0]['type'] == 3
                if not (ok1 and ok2):
                    viol.append((
                        '%s/%s/%s/lookup-unowned' % (PROP, ev[0], st),
                        'after %r from %r: %s has no owner but lookups '
                        'answered %r / %r'
                        % (ev, before, n, [_brief(x) for x in r1],
                           [_brief(x) for x in r2])))
                continue
            got_owner = r1[0]['body'][0] if len(r1) == 1 and \
                r1[0]['type'] == 2 else None
            got_queue = r2[0]['body'][0] if len(r2) == 1 and \
                r2[0]['type'] == 2 else None
            want_q = [w.uniq[want_owner]] + [w.uniq[c] for c in m.waiters[n]]
            if replaced is not None and ni == replaced_ni and \
                    got_queue is not None and \
                    w.uniq[replaced] in got_queue[1:] and \
                    got_queue.count(w.uniq[replaced]) == 1:
                # the statement leaves open whether a replaced owner waits;
                # adopt what the bus did
                pos = got_queue.index(w.uniq[replaced]) - 1
                m.waiters[n].insert(pos, replaced)
                m.allow[n][replaced] = None
                want_q = [w.uniq[want_owner]] + \
                    [w.uniq[c] for c in m.waiters[n]]
            if got_owner != w.uniq[want_owner]:
                viol.append((
                    '%s/%s/%s/owner' % (PROP, ev[0], st),
                    'after %r from %r: owner of %s is %r, expected %r'
                    % (ev, before, n, got_owner, w.uniq[want_owner])))
            elif got_queue != want_q:
                viol.append((
                    '%s/%s/%s/queue' % (PROP, ev[0], st),
                    'after %r from %r: queue of %s is %r, expected %r'
                    % (ev, before, n, got_queue, want_q)))
            else:
                dead = [u for u in (got_queue or []) if not
                        m.alive[w.uniq.index(u)]]
                if dead:
                    viol.append(('%s/dead-in-queue' % PROP,
                                 'disconnected %r still listed for %s'
                                 % (dead, n)))
        return viol

    def canon(self, w):
        # everything the bus and its connections hold: two worlds are merged
        # only if the library itself cannot tell them apart
        impl = explore.impl_digest(w.bw.bus, [p.proto for p in w.peers],
                                   ignore=('uuid', 'transport', 'factory',
                                           '_endian'))
        return (w.model.key(), tuple(sorted(w.has_rule)), impl)

    def nontrivial(self, hist):
        return len({e[1] for e in hist}) > 1


class ClientApiScenario(explore.Scenario):
    """The same table seen through the client API: real client connections
    on a real bus calling requestBusName / releaseBusName / getNameOwner /
    listQueuedBusNameOwners; what the Deferreds deliver must state the
    caller's relation to the name as the reference table has it."""
    name = 'C13/client-api'
    NAME = 'com.ex.N'
    # (allowReplacement, replaceExisting, doNotQueue, errbackUnlessAcquired)
    REQUESTS = [(False, False, True, True), (False, False, False, True),
                (True, True, False, True), (True, False, True, True),
                (False, True, True, False), (False, False, False, False)]

    def build(self):
        from mcx.checks import c11
        w = World()
        w.sys = c11.System(dict(n=self.params.get('clients', 3),
                                exporters={}, calls=[]), 'explicit')
        k = w.sys.n
        w.model = Model(k, [self.NAME])
        w.uniq = [p.busName for p in w.sys.cprotos]
        return w

    def close(self, w):
        w.sys.close()

    def enabled(self, w):
        evs = []
        for c in range(w.sys.n):
            for ri in range(len(self.REQUESTS)):
                evs.append(('req', c, ri))
            evs.append(('rel', c))
        return evs

    @staticmethod
    def _outcome(d, sys_):
        got = []
        d.addCallbacks(lambda v: got.append(('ok', v)),
                       lambda f: got.append(
                           ('err', type(f.value).__name__,
                            getattr(f.value, 'returnCode', None))))
        sys_.pump()
        return got

    def apply(self, w, ev):
        viol = []
        m = w.model
        before = m.key()
        n = self.NAME
        replaced = None
        try:
            c = ev[1]
            conn = w.sys.cprotos[c]
            if ev[0] == 'req':
                allow, repl, noq, errb = self.REQUESTS[ev[2]]
                flags = (1 if allow else 0) | (2 if repl else 0) | \
                    (4 if noq else 0)
                code, acq, lost, replaced = m.request(c, n, flags)
                # (the options by keyword, or by position in the documented
                # order)
                if ev[2] % 2:
                    d_ = conn.requestBusName(n, allow, repl, noq, errb)
                else:
                    d_ = conn.requestBusName(
                        n, allowReplacement=allow, replaceExisting=repl,
                        doNotQueue=noq, errbackUnlessAcquired=errb)
                got = self._outcome(d_, w.sys)
                if errb and code in (2, 3):
                    want = [('err', 'FailedToAcquireName', code)]
                else:
                    want = [('ok', code)]
                tag = 'request/code-%d/%s' % (code, 'errback' if errb
                                              else 'plain')
            else:
                code, acq = m.release(c, n)
                got = self._outcome(conn.releaseBusName(n), w.sys)
                want = [('ok', code)]
                tag = 'release/code-%d' % code
            if got != want:
                viol.append(('%s/client-api/%s' % (PROP, tag),
                             '%r in state %r: the Deferred delivered %r, the '
                             'name table says %r' % (ev, before, got, want)))
            # read the table back through the API of another client
            asker = w.sys.cprotos[(c + 1) % w.sys.n]
            own = self._outcome(asker.getNameOwner(n), w.sys)
            q = self._outcome(asker.listQueuedBusNameOwners(n), w.sys)
            if replaced is not None and q and q[0][0] == 'ok' and \
                    w.uniq[replaced] in q[0][1][1:]:
                pos = q[0][1].index(w.uniq[replaced]) - 1
                m.waiters[n].insert(pos, replaced)
                m.allow[n][replaced] = None
            if m.owner[n] is None:
                if not (own and own[0][0] == 'err'):
                    viol.append(('%s/client-api/owner-of-unowned' % PROP,
                                 'after %r from %r: getNameOwner gave %r for '
                                 'a name nobody owns' % (ev, before, own)))
            else:
                want_q = [w.uniq[m.owner[n]]] + [w.uniq[x]
                                                  for x in m.waiters[n]]
                if own != [('ok', w.uniq[m.owner[n]])]:
                    viol.append(('%s/client-api/owner' % PROP,
                                 'after %r from %r: getNameOwner gave %r, '
                                 'expected %r' % (ev, before, own,
                                                  w.uniq[m.owner[n]])))
                elif q != [('ok', want_q)]:
                    viol.append(('%s/client-api/queue' % PROP,
                                 'after %r from %r: listQueuedBusNameOwners '
                                 'gave %r, expected %r' % (ev, before, q,
                                                           want_q)))
        except core.HarnessError:
            raise
        except Exception as e:
            return [('%s/client-api/%s/raises-%s' % (PROP, ev[0],
                                                     type(e).__name__),
                     'event %r in state %r raised %r' % (ev, before, e))]
        return viol

    def canon(self, w):
        return w.model.key()

    def nontrivial(self, hist):
        return len({e[1] for e in hist}) > 1


def _brief(m):
    return (m['type'], m['fields'].get('member') or
            m['fields'].get('error_name'), m['body'])


def _state_tag(before, ev, w):
    """abstract description of the pre-state relative to the caller, used in
    violation signatures (stable across runs, independent of client ids)"""
    if ev[0] == 'disc':
        c = ev[1]
        roles = []
        for (n, owner, waiters, allow) in before[1]:
            roles.append('owner' if owner == c else
                         'waiter' if c in waiters else 'none')
        return 'caller=' + '+'.join(roles)
    c, ni = ev[1], ev[2]
    n, owner, waiters, allow = before[1][ni]
    allow = dict(allow)
    role = 'owner' if owner == c else 'waiter' if c in waiters else 'none'
    tag = 'caller=%s,owned=%s' % (role, owner is not None)
    if owner is not None and owner != c:
        tag += ',owner.allow=%d' % bool(allow.get(owner))
    if ev[0] == 'req':
        f = ev[3]
        tag += ',flags=%s%s%s' % ('A' if f & 1 else '-', 'R' if f & 2 else '-',
                                  'N' if f & 4 else '-')
    tag += ',waiters=%d' % len(waiters)
    return tag


def _reply(peer, serial):
    out = [m for m in peer.received()
           if m['fields'].get('reply_serial') == serial]
    return out[0] if len(out) == 1 else None


def run_long_lived(gap, hello_every):
    """a long-lived bus: client A owns a name while gap-1 short-lived
    connections come and go; then B connects and asks for the name without
    replacement: A is still the owner, B waits, lookups say so; when B
    leaves, A owns the name as before"""
    from mcx import fakes
    viol = []
    name = 'org.ex.Long'
    try:
        w = fakes.BusWorld()
        a = w.connect()
        s = a.call_bus('RequestName', 'su', [name, 0])
        r = _reply(a, s)
        if r is None or r['body'] != [1]:
            return [('long-lived/setup', 'RequestName answered %r' % (r,))]
        left = gap - 1
        while left > 0:
            k = min(left, hello_every)
            w.churn(k - 1)
            left -= k
            t = w.connect()
            t.disconnect()
        b = w.connect()
        where = ('client A (%s) owns %s, %d connections came and went, '
                 'client B (%s) connected' % (a.name, name, gap - 1, b.name))
        if b.name == a.name or not b.name:
            viol.append(('long-lived/same-unique-name', where))
            return viol
        s = b.call_bus('RequestName', 'su', [name, 0])
        r = _reply(b, s)
        if r is None or r['type'] != 2 or r['body'] != [2]:
            viol.append(('long-lived/request',
                         '%s; B asked for the name (no flags) and was '
                         'answered %r, expected "in queue"'
                         % (where, r and (r['type'], r['body']))))
        a.received()
        for who in (a, b):
            s = who.call_bus('GetNameOwner', 's', [name])
            r = _reply(who, s)
            if r is None or r['type'] != 2 or r['body'] != [a.name]:
                viol.append(('long-lived/owner-lookup',
                             '%s; GetNameOwner asked by %s answered %r, the '
                             'owner is %s' % (where, who.name,
                                              r and (r['type'], r['body']),
                                              a.name)))
            s = who.call_bus('ListQueuedOwners', 's', [name])
            r = _reply(who, s)
            if r is None or r['type'] != 2 or \
                    r['body'] != [[a.name, b.name]]:
                viol.append(('long-lived/queue-listing',
                             '%s; ListQueuedOwners answered %r, expected %r'
                             % (where, r and (r['type'], r['body']),
                                [a.name, b.name])))
        b.disconnect()
        c = w.connect()
        s = c.call_bus('GetNameOwner', 's', [name])
        r = _reply(c, s)
        if r is None or r['type'] != 2 or r['body'] != [a.name]:
            viol.append(('long-lived/owner-after-leave',
                         '%s and left again; GetNameOwner answered %r, the '
                         'owner is still %s' % (where, r and (r['type'],
                                                              r['body']),
                                                a.name)))
        s = c.call_bus('ListQueuedOwners', 's', [name])
        r = _reply(c, s)
        if r is None or r['type'] != 2 or r['body'] != [[a.name]]:
            viol.append(('long-lived/queue-after-leave',
                         '%s and left again; ListQueuedOwners answered %r'
                         % (where, r and (r['type'], r['body']))))
        # A is still a connected client: a call to its unique name and to
        # the name it owns reaches it
        a.received()
        for dest in (a.name, name):
            c.send_raw(R.encode_message(
                R.METHOD_CALL, c.next_serial(),
                {'path': '/o', 'member': 'Ping', 'destination': dest}))
            got = [m for m in a.received() if m['type'] == 1]
            if len(got) != 1:
                viol.append(('long-lived/owner-unreachable',
                             '%s and left again; a call to %s reached A %d '
                             'times' % (where, dest, len(got))))
    except Exception as e:
        viol.append(('long-lived/raises-%s' % type(e).__name__,
                     '%d connections between A and B: raised %r'
                     % (gap - 1, e)))
    return viol


def run_dropped_peer(first_dest, pipelined):
    """a peer that never said Hello sends a call to somebody else (for
    which the bus drops it) and, in the same read or the next one, asks for
    a name; then its transport closes.  Whatever the bus made of the
    request, afterwards the peer neither owns nor waits for the name"""
    viol = []
    name = 'org.ex.Drop'
    try:
        w = fakes.BusWorld()
        a = w.connect()
        p = w.factory.buildProtocol(None)
        t = fakes.FakeTransport()
        p.makeConnection(t)
        p.dataReceived(b'\0AUTH ANONYMOUS\r\nBEGIN\r\n')
        t.take()
        dest = {'peer': a.name, 'unowned': 'org.ex.Nobody',
                'bus-first': 'org.freedesktop.DBus'}[first_dest]
        m1 = R.encode_message(
            R.METHOD_CALL, 1,
            {'path': '/o', 'member': 'GetId' if first_dest == 'bus-first'
             else 'Foo', 'destination': dest,
             'interface': 'org.freedesktop.DBus'})
        m2 = R.encode_message(
            R.METHOD_CALL, 2,
            {'path': '/org/freedesktop/DBus', 'member': 'RequestName',
             'interface': 'org.freedesktop.DBus',
             'destination': 'org.freedesktop.DBus'}, 'su', [name, 0])
        try:
            if pipelined:
                p.dataReceived(m1 + m2)
            else:
                p.dataReceived(m1)
                p.dataReceived(m2)
        except Exception:
            pass
        t.lost = True
        p.connectionLost(fakes.lost_reason())
        a.received()
        s = a.call_bus('GetNameOwner', 's', [name])
        r = _reply(a, s)
        if r is None or r['type'] != 3:
            viol.append(('dropped-peer/still-owner',
                         'a peer without Hello called %s, asked for %s '
                         '(%s) and went away; GetNameOwner answers %r'
                         % (dest, name, 'same read' if pipelined else
                            'next read', r and (r['type'], r['body']))))
        s = a.call_bus('RequestName', 'su', [name, 4])
        r = _reply(a, s)
        if r is None or r['type'] != 2 or r['body'] != [1]:
            viol.append(('dropped-peer/name-not-free',
                         'afterwards another client asking for %s is '
                         'answered %r, expected "primary owner"'
                         % (name, r and (r['type'], r['body']))))
        s = a.call_bus('ListQueuedOwners', 's', [name])
        r = _reply(a, s)
        if r is None or r['type'] != 2 or r['body'] != [[a.name]]:
            viol.append(('dropped-peer/queue',
                         'ListQueuedOwners(%s) answers %r, expected %r'
                         % (name, r and (r['type'], r['body']), [a.name])))
    except Exception as e:
        viol.append(('dropped-peer/raises-%s' % type(e).__name__,
                     '%r' % (e,)))
    return viol


def _task_dropped(_):
    res = core.Result()
    for first_dest in ('peer', 'unowned', 'bus-first'):
        for pipelined in (True, False):
            res.count('states')
            res.count('transitions', 6)
            res.count('evaluations', 3)
            res.count('nontrivial')
            for t, w in run_dropped_peer(first_dest, pipelined):
                res.violation('%s/%s' % (PROP, t), w,
                              {'part': 'dropped',
                               'args': [first_dest, pipelined]}, size=2)
    return res


def _task_long_lived(gap):
    res = core.Result()
    res.count('states')
    res.count('transitions', gap + 12)
    res.count('evaluations', 12)
    res.count('nontrivial')
    for t, w in run_long_lived(gap, 1000):
        res.violation('%s/%s' % (PROP, t), w,
                      {'part': 'long-lived', 'args': [gap, 1000]}, size=gap)
    return res


def run(ctx):
    ctx.rule = (
        'breadth-first search with state deduplication over histories of '
        'RequestName(client, name, flags 0..7), ReleaseName(client, name) '
        'and Disconnect(client) on a real Bus with scripted raw clients '
        '(requests are real method-call bytes; replies and signals are read '
        'from each client transport with the reference parser). After every '
        'event: reply code, NameAcquired recipients, and GetNameOwner / '
        'ListQueuedOwners for every name are compared with the reference '
        'name table. State = (reference table, digest of the bus and '
        'per-connection name bookkeeping). The same table is also driven '
        'through the client API (requestBusName with six flag / errback '
        'combinations, releaseBusName, getNameOwner, '
        'listQueuedBusNameOwners) of three real client connections on a real '
        'bus. One exploration has clients that write the optional SENDER '
        'field themselves (another client\'s name, an unknown unique name, '
        'the well-known name, their own). A peer without Hello that calls '
        'somebody else, asks for a name in the same / the next read and '
        'goes away owns nothing afterwards. Long-lived bus: 254..257 / 65534..65537 connections come and '
        'go between the owner\'s and a contender\'s connection. '
        'non-trivial = history involving '
        'more than one client')
    ctx.assumptions = [
        'where a replaced owner goes (queue or nowhere) is left open by the '
        'statement: the model adopts what ListQueuedOwners shows',
        'NameOwnerChanged broadcasts and NameLost are not compared']
    if ctx.quick:
        explore.explore(ctx, NameScenario, {'clients': 3, 'names': 1},
                        max_depth=40, label='3 clients, 1 name')
        explore.explore(ctx, NameScenario,
                        {'clients': 2, 'names': 2, 'flags': [0, 1, 2, 3, 4, 6]},
                        max_depth=4, label='2 clients, 2 names, depth 4')
        explore.explore(ctx, NameScenario, {'clients': 4, 'names': 1},
                        max_depth=60, label='4 clients, 1 name')
        explore.explore(ctx, NameScenario,
                        {'clients': 3, 'names': 1, 'rules': True,
                         'flags': [0, 3, 4]}, max_depth=5,
                        label='3 clients that also add / remove a match '
                              'rule, depth 5')
        explore.explore(ctx, NameScenario,
                        {'clients': 3, 'names': 1, 'nohello': (1,),
                         'flags': [0, 1, 3, 4]},
                        max_depth=40,
                        label='3 clients, one of which never says Hello')
        explore.explore(ctx, NameScenario,
                        {'clients': 3, 'names': 2, 'flags': [0, 1, 2, 3, 4, 6]},
                        max_depth=3, label='3 clients, 2 names, depth 3')
        explore.explore(ctx, NameScenario,
                        {'clients': 3, 'names': 1, 'forge': True},
                        max_depth=40,
                        label='3 clients that fill in the SENDER field '
                              'themselves (others\' names, unknown names, '
                              'the well-known name, their own)')
    else:
        explore.explore(ctx, NameScenario, {'clients': 3, 'names': 1},
                        max_depth=60, label='3 clients, 1 name')
        explore.explore(ctx, NameScenario, {'clients': 4, 'names': 1},
                        max_depth=60, label='4 clients, 1 name',
                        max_states=400000)
        explore.explore(ctx, NameScenario,
                        {'clients': 3, 'names': 1, 'rules': True,
                         'flags': [0, 1, 3, 4]}, max_depth=7,
                        label='3 clients that also add / remove a match '
                              'rule, depth 7', max_states=300000)
        explore.explore(ctx, NameScenario,
                        {'clients': 3, 'names': 1, 'nohello': (1,)},
                        max_depth=60,
                        label='3 clients, one of which never says Hello')
        explore.explore(ctx, NameScenario, {'clients': 3, 'names': 2},
                        max_depth=6, label='3 clients, 2 names, depth 6',
                        max_states=300000)
        explore.explore(ctx, NameScenario,
                        {'clients': 3, 'names': 1, 'forge': True},
                        max_depth=60,
                        label='3 clients that fill in the SENDER field '
                              'themselves')
    explore.explore(ctx, ClientApiScenario, {'clients': 3},
                    max_depth=3 if ctx.quick else 5,
                    label='client API on a composed system, 3 clients')
    from mcx import scale
    ctx.map(_task_dropped, [0])
    ctx.map(_task_long_lived, scale.LADDER_SMALL[3:] + scale.LADDER_WORD)
    ctx.bounds = {k: v for k, v in ctx.parts.items()}


def replay(data):
    if data.get('part') == 'dropped':
        return [('%s/%s' % (PROP, t), w) for t, w in
                run_dropped_peer(*data['args'])]
    if data.get('part') == 'long-lived':
        return [('%s/%s' % (PROP, t), w) for t, w in
                run_long_lived(*data['args'])]
    return explore.replay_violation(data)
