"""
C07 - the client speaks D-Bus only after the server's OK (and, on UNIX
transports, after the descriptor negotiation was answered); it offers its
mechanisms in order, each at most once, moves on after REJECTED / ERROR,
closes when nothing is left or the server leaves the protocol, and completes
against every conforming server.
"""
import atexit
import binascii
import hashlib
import itertools
import os
import shutil
import tempfile

from mcx import core, explore, fakes

PROP = 'C07'
PREFERENCE = [b'EXTERNAL', b'DBUS_COOKIE_SHA1', b'ANONYMOUS']
COOKIE = b'c00c1e5ec12e7'
_SCRATCH = {}
_CURRENT = {'cookie': COOKIE}


def rotate_cookie(secret, before=0, after=0):
    """the server replaces the secret stored under the same context and id
    (what txdbus's own bus does between two exchanges); `before` / `after`
    cookies of other exchanges stand in the file ahead of / behind it"""
    d = scratch_keyring()

    def other(i):
        return b'%d 1700000%03d %s\n' % (
            1000 + i, i % 1000, binascii.hexlify(hashlib.sha1(
                b'other-%d' % i).digest() + b'pad4')[:48])
    with open(os.path.join(d, 'ctx'), 'wb') as f:
        f.write(b''.join(other(i) for i in range(before)))
        f.write(b'41 1700000000 ' + secret + b'\n')
        f.write(b''.join(other(5000 + i) for i in range(after)))
    _CURRENT['cookie'] = secret


def scratch_keyring():
    """per-process keyring directory holding one known cookie"""
    pid = os.getpid()
    if pid not in _SCRATCH:
        home = tempfile.mkdtemp(prefix='mcx-home-')
        d = os.path.join(home, '.dbus-keyrings')
        os.mkdir(d, 0o700)
        with open(os.path.join(d, 'ctx'), 'wb') as f:
            f.write(b'41 1700000000 ' + COOKIE + b'\n')
        _SCRATCH[pid] = d
        atexit.register(shutil.rmtree, home, True)
    return _SCRATCH[pid]


CHALLENGE = binascii.hexlify(b'ctx 41 ' + binascii.hexlify(b'server-chal'))
# a well-formed challenge naming a cookie id / a context the keyring lacks
CHALLENGE_STALE = binascii.hexlify(b'ctx 99 '
                                   + binascii.hexlify(b'server-chal'))
CHALLENGE_NOCTX = binascii.hexlify(b'nofile 41 '
                                   + binascii.hexlify(b'server-chal'))

BUSY = [1, 9, 10, 99, 100, 101, 115, 116, 117, 118, 119, 120, 121, 127,
        128, 129, 255, 256, 257, 1000]

LINES = [
    b'OK ' + fakes.GUID, b'OK', b'OK zz', b'REJECTED EXTERNAL ANONYMOUS',
    b'REJECTED', b'ERROR', b'ERROR "text"', b'DATA', b'DATA ' + CHALLENGE,
    b'DATA zz', b'AGREE_UNIX_FD', b'BEGIN', b'FOO', b'',
    b'DATA ' + CHALLENGE_STALE, b'DATA ' + CHALLENGE_NOCTX,
    # several hexadecimal tokens / a hexadecimal token and more: not "OK
    # followed by a GUID"
    b'OK 01 23', b'OK ' + fakes.GUID[:16] + b'\t' + fakes.GUID[16:],
    b'OK ' + fakes.GUID + b' ' + fakes.GUID,
]
OUTSIDE = {b'BEGIN', b'FOO', b'', b'OK', b'OK zz', b'OK 01 23',
           b'OK ' + fakes.GUID[:16] + b'\t' + fakes.GUID[16:],
           b'OK ' + fakes.GUID + b' ' + fakes.GUID}


def _det_urandom(n):
    return b'\x42' * n


def _own_environment():
    """The two pieces of environment the client reads during a cookie
    exchange, owned by the harness without reaching into the library:
    os.urandom (the client's challenge - fixed, so that two runs of one
    schedule give one transcript) and $HOME (so that ~/.dbus-keyrings is the
    scratch keyring)."""
    if os.urandom is not _det_urandom:
        os.urandom = _det_urandom
    home = os.path.dirname(scratch_keyring())
    if os.environ.get('HOME') != home:
        os.environ['HOME'] = home


def make_client(unix):
    from txdbus import protocol as P, authentication as A
    _own_environment()

    class Rec(P.BasicDBusProtocol):
        _client = True
        authenticator = A.ClientAuthenticator

        def __init__(self):
            self.auth_calls = 0
            self.auth_at = None

        def connectionAuthenticated(self):
            self.auth_calls += 1
            self.auth_at = len(self.transport.written())

    p = Rec()
    t = fakes.wrapped_unix_transport() if unix == 2 else \
        fakes.FakeUnixTransport() if unix else fakes.FakeTransport()
    p.makeConnection(t)
    return p, t


class Obs:
    """what the oracle remembers about a conversation"""

    def __init__(self, unix):
        self.unix = unix
        self.valid_ok = False
        self.negotiate_sent = False
        self.negotiate_answered = False
        self.auths = []
        self.begin = False
        self.closed = False
        self.binary = False

    def key(self):
        return (self.valid_ok, self.negotiate_sent, self.negotiate_answered,
                tuple(self.auths), self.begin, self.closed)


def client_lines(data):
    """split client output into protocol lines; anything after BEGIN is
    binary"""
    out = []
    rest = data
    while rest:
        i = rest.find(b'\r\n')
        if i < 0:
            out.append(('partial', rest))
            break
        line, rest = rest[:i], rest[i + 2:]
        out.append(('line', line))
        if line == b'BEGIN':
            if rest:
                out.append(('binary', rest))
            break
    return out


def digest_step(obs, server_line, written, closed_now, auth_calls, tag):
    """checks S1..S5 for one step; updates obs; returns violations"""
    viol = []
    if server_line is None and written.startswith(b'\0'):
        written = written[1:]          # the initial NUL byte
    elif server_line is None:
        viol.append(('%s/S1/no-initial-nul' % PROP,
                     'the client did not open with a NUL byte: %r'
                     % written[:20]))
    items = client_lines(written)
    phase_before_ok = not obs.valid_ok
    negotiating = obs.negotiate_sent and not obs.negotiate_answered
    if server_line is not None:
        cmd = server_line.split(b' ')[0]
        if cmd == b'OK' and len(server_line.split()) == 2 and \
                server_line.count(b' ') == 1 and b'\t' not in server_line:
            try:
                binascii.unhexlify(server_line.split()[1])
                obs.valid_ok = True
            except Exception:
                pass
        if negotiating and cmd in (b'AGREE_UNIX_FD', b'ERROR'):
            obs.negotiate_answered = True
    if obs.closed and written:
        viol.append(('%s/S5/write-after-close/%s' % (PROP, tag),
                     'after closing the connection the client wrote %r'
                     % written[:60]))
    for kind, val in items:
        if kind == 'partial':
            viol.append(('%s/S1/unterminated-line/%s' % (PROP, tag),
                         'client wrote an unterminated line %r' % val[:40]))
        elif kind == 'binary':
            obs.binary = True
        elif val.startswith(b'AUTH'):
            obs.auths.append(val.split()[1] if len(val.split()) > 1
                             else b'')
        elif val == b'NEGOTIATE_UNIX_FD':
            if not obs.valid_ok or not obs.unix:
                viol.append(('%s/S1/negotiate-without-ok/%s' % (PROP, tag),
                             'NEGOTIATE_UNIX_FD sent without a valid OK / on '
                             'a non-UNIX transport'))
            obs.negotiate_sent = True
            obs.negotiate_answered = False
        elif val == b'BEGIN':
            if not obs.valid_ok:
                viol.append(('%s/S1/begin-without-ok/%s' % (PROP, tag),
                             'client sent BEGIN although no OK with a valid '
                             'GUID was received (after server line %r)'
                             % (server_line,)))
            elif obs.unix and not (obs.negotiate_sent
                                   and obs.negotiate_answered):
                viol.append(('%s/S1/begin-before-fd-answer/%s' % (PROP, tag),
                             'UNIX transport: BEGIN sent before the '
                             'descriptor negotiation was answered (after %r)'
                             % (server_line,)))
            if obs.begin:
                viol.append(('%s/S1/begin-twice/%s' % (PROP, tag),
                             'BEGIN sent twice'))
            obs.begin = True
    if obs.binary and not obs.begin:
        viol.append(('%s/S1/binary-before-begin/%s' % (PROP, tag),
                     'binary data written before BEGIN'))
    if auth_calls > 1 or (auth_calls == 1 and not obs.begin):
        viol.append(('%s/S1/authenticated-callback/%s' % (PROP, tag),
                     'connectionAuthenticated ran %d times, BEGIN sent: %s'
                     % (auth_calls, obs.begin)))
    if server_line is not None and any(
            k == 'line' and v.startswith(b'AUTH') for k, v in items) and \
            server_line.split(b' ')[0] not in (b'REJECTED', b'ERROR'):
        viol.append(('%s/S6/auth-out-of-turn/%s' % (PROP, tag),
                     'the client started a new AUTH in reply to %r; a '
                     'mechanism in progress is abandoned with CANCEL or '
                     'ERROR and the next AUTH follows the server\'s '
                     'REJECTED' % (server_line,)))
    if obs.auths != PREFERENCE[:len(obs.auths)]:
        viol.append(('%s/S2/auth-order/%s' % (PROP, tag),
                     'AUTH lines so far %r are not a prefix of the preference '
                     'order' % (obs.auths,)))
    if closed_now:
        obs.closed = True
    if server_line is not None:
        cmd = server_line.split(b' ')[0]
        new_auth = any(k == 'line' and v.startswith(b'AUTH')
                       for k, v in items)
        if cmd in (b'REJECTED', b'ERROR') and phase_before_ok and \
                not negotiating:
            left = len(PREFERENCE) - (len(obs.auths) - (1 if new_auth else 0))
            if left > 0 and not new_auth and not obs.closed:
                viol.append(('%s/S3/no-next-mechanism/%s' % (PROP, tag),
                             'after %r the next mechanism was not offered '
                             '(wrote %r)' % (server_line, written[:60])))
            if left <= 0 and not obs.closed:
                viol.append(('%s/S3/exhausted-not-closed/%s' % (PROP, tag),
                             'all mechanisms were refused (%r) but the '
                             'connection stays open' % (server_line,)))
        if (server_line in OUTSIDE or
                (cmd == b'AGREE_UNIX_FD' and not negotiating)) \
                and not obs.closed:
            viol.append(('%s/S4/outside-protocol-not-closed/%s' % (PROP, tag),
                         'server line %r is outside the protocol here but '
                         'the connection stays open (client wrote %r)'
                         % (server_line, written[:60])))
        if not written and not closed_now and not obs.closed:
            viol.append(('%s/S5/stall/%s' % (PROP, tag),
                         'server line %r was followed by no client action'
                         % (server_line,)))
    return viol


class W:
    pass


class ClientScenario(explore.Scenario):
    name = 'C07/client-machine'

    def build(self):
        from txdbus import authentication as A
        w = W()
        self._saved = A.os.urandom
        w.unix = bool(self.params['unix'])
        w.p, w.t = make_client(self.params['unix'])
        w.obs = Obs(w.unix)
        w.init_viol = digest_step(w.obs, None, w.t.take(), False, 0, 'start')
        if w.obs.auths != [b'EXTERNAL']:
            w.init_viol.append(('%s/S2/first-auth' % PROP,
                                'the client opened with %r' % w.obs.auths))
        w.done = False
        return w

    def enabled(self, w):
        if w.done or w.obs.closed or w.obs.begin:
            return []
        return [('s', i) for i in range(len(LINES))]

    def apply(self, w, ev):
        line = LINES[ev[1]]
        viol = list(w.init_viol)
        w.init_viol = []
        was = w.t.disconnecting
        tag = '%s/%s' % ('unix' if w.unix else 'tcp',
                         (line.split(b' ')[0] or b'empty').decode())
        if line in (b'OK zz', b'DATA zz'):
            tag += '-badhex'
        elif line.startswith(b'OK ') and len(line.split()) > 2:
            tag += '-several-tokens'
        elif line.endswith(CHALLENGE_STALE):
            tag += '-stale-cookie-id'
        elif line.endswith(CHALLENGE_NOCTX):
            tag += '-unknown-context'
        elif line == b'OK':
            tag += '-noguid'
        try:
            w.p.dataReceived(line + b'\r\n')
        except Exception as e:
            w.done = True
            return viol + [('%s/raises-%s/%s' % (PROP, type(e).__name__, tag),
                            'server line %r raised %r' % (line, e))]
        written = w.t.take()
        closed_now = w.t.disconnecting and not was
        viol += digest_step(w.obs, line, written, closed_now, w.p.auth_calls,
                            tag)
        return viol

    def canon(self, w):
        a = getattr(w.p, '_dbusAuth', None)
        return (w.obs.key(), w.done,
                explore.impl_digest(a, ignore=('protocol', 'cookie_dir')))

    def nontrivial(self, hist):
        return len(hist) > 1


# ---------------------------------------------------------------------------
# liveness against conforming reference servers

class RefServerPeer:
    """A conforming server accepting the mechanisms in `accept`."""

    def __init__(self, accept, fd_answer, external_data_first,
                 stale_cookie=False):
        self.accept = accept
        self.fd_answer = fd_answer
        self.ext_data = external_data_first
        self.stale_cookie = stale_cookie
        self.state = 'auth'
        self.mech = None
        self.done = False
        self.bad = None

    def _rejected(self):
        self.state = 'auth'
        return b'REJECTED ' + b' '.join(sorted(self.accept))

    def line(self, l):
        cmd, _, arg = l.partition(b' ')
        if self.state == 'auth':
            if cmd != b'AUTH':
                return b'ERROR'
            parts = arg.split()
            if parts and parts[0] == b'EXTERNAL' and self.ext_data and \
                    b'EXTERNAL' not in self.accept:
                # a server that asks for the identity first and only then
                # finds it cannot accept it (no peer credentials over TCP)
                self.mech = b'EXTERNAL-refused-after-data'
                self.state = 'data'
                return b'DATA'
            if not parts or parts[0] not in self.accept:
                return self._rejected()
            self.mech = parts[0]
            if self.mech == b'ANONYMOUS':
                self.state = 'begin'
                return b'OK ' + fakes.GUID
            if self.mech == b'EXTERNAL':
                if self.ext_data and len(parts) == 1:
                    self.state = 'data'
                    return b'DATA'
                self.state = 'begin'
                return b'OK ' + fakes.GUID
            if self.mech == b'DBUS_COOKIE_SHA1':
                if len(parts) < 2:
                    return self._rejected()
                self.state = 'data'
                if self.stale_cookie:
                    return b'DATA ' + CHALLENGE_STALE
                return b'DATA ' + CHALLENGE
        if self.state == 'data':
            if cmd in (b'CANCEL', b'ERROR'):
                return self._rejected()
            if cmd != b'DATA':
                return b'ERROR'
            if self.mech == b'EXTERNAL':
                self.state = 'begin'
                return b'OK ' + fakes.GUID
            if self.mech == b'EXTERNAL-refused-after-data':
                return self._rejected()
            try:
                cc, h = binascii.unhexlify(arg.strip()).split()
                want = binascii.hexlify(hashlib.sha1(
                    binascii.hexlify(b'server-chal') + b':' + cc + b':'
                    + _CURRENT['cookie']).digest())
                if h == want:
                    self.state = 'begin'
                    return b'OK ' + fakes.GUID
            except Exception:
                pass
            return self._rejected()
        if self.state == 'begin':
            if cmd == b'BEGIN':
                self.done = True
                return None
            if cmd == b'NEGOTIATE_UNIX_FD':
                return self.fd_answer
            if cmd in (b'CANCEL', b'ERROR'):
                return self._rejected()
            return b'ERROR'
        return b'ERROR'


def run_handshake(accept, fd_answer, ext_data, unix, cut=None, stale=False):
    """Full conversation; cut = (response index, position) splits that server
    line into two reads.  Returns (completed, transcript, violations)."""
    p, t = make_client(unix)
    srv = RefServerPeer(set(accept), fd_answer, ext_data, stale)
    obs = Obs(unix)
    viol = digest_step(obs, None, t.take(), False, 0, 'live')
    transcript = []
    pending = [l for k, l in client_lines(t.written()) if k == 'line']
    # (t.take() above consumed; recompute from the log)
    pending = [l for l in t.written().split(b'\r\n') if l and l != b'\0']
    pending = [l.lstrip(b'\0') for l in pending]
    n_resp = 0
    guard = 0
    while pending and guard < 40:
        guard += 1
        l = pending.pop(0)
        transcript.append(('C', l))
        if l == b'BEGIN':
            srv.line(l)
            break
        r = srv.line(l)
        if r is None:
            break
        transcript.append(('S', r))
        data = r + b'\r\n'
        was = t.disconnecting
        try:
            if cut is not None and cut[0] == n_resp and 0 < cut[1] < len(data):
                p.dataReceived(data[:cut[1]])
                p.dataReceived(data[cut[1]:])
            else:
                p.dataReceived(data)
        except Exception as e:
            viol.append(('%s/live/raises-%s' % (PROP, type(e).__name__),
                         'server line %r raised %r' % (r, e)))
            break
        n_resp += 1
        written = t.take()
        viol += digest_step(obs, r, written, t.disconnecting and not was,
                            p.auth_calls, 'live')
        for k, v in client_lines(written):
            if k == 'line':
                pending.append(v)
        if t.disconnecting:
            break
    completed = srv.done and p.auth_calls == 1 and not t.disconnecting
    return completed, transcript, viol, n_resp


def _task_live(task):
    quick = task
    res = core.Result()
    mechs = PREFERENCE
    for r in range(1, 4):
        for accept in itertools.combinations(mechs, r):
            for fd_answer in (b'AGREE_UNIX_FD', b'ERROR',
                              b'ERROR "not supported"'):
                for ext_data in (False, True):
                    for unix in (False, True, 2):
                        done, tr, viol, n = run_handshake(
                            accept, fd_answer, ext_data, unix)
                        cfg = {'accept': [a.decode() for a in accept],
                               'fd_answer': fd_answer.decode(),
                               'external_data_first': ext_data,
                               'unix': unix}
                        cases = [(None, done, tr, viol)]
                        # every single cut of every server line
                        for i in range(n):
                            line_len = len([x for x in tr if x[0] == 'S'][i][1]) + 2
                            for pos in range(1, line_len):
                                d2, t2, v2, _ = run_handshake(
                                    accept, fd_answer, ext_data, unix,
                                    cut=(i, pos))
                                cases.append(((i, pos), d2, t2, v2))
                        for cut, d, t_, v in cases:
                            res.count('transitions')
                            res.count('evaluations')
                            res.count('traces')
                            res.count('nontrivial')
                            tag = '%s/%s/fd=%s' % (
                                '+'.join(cfg['accept']),
                                ('tcp', 'unix', 'unix-wrapped')[int(unix)],
                                fd_answer.split()[0].decode())
                            rep = {'part': 'live', 'cfg': cfg,
                                   'cut': list(cut) if cut else None}
                            if not d:
                                res.violation(
                                    '%s/live/incomplete/%s' % (PROP, tag),
                                    'handshake with a conforming server %r '
                                    '(cut %r) did not complete: %r'
                                    % (cfg, cut, t_[-6:]), rep,
                                    size=len(t_) + (1 if cut else 0))
                            for sig, what in v:
                                res.violation(sig + '/' + tag, what, rep,
                                              size=len(t_))
                            if t_ != tr:
                                res.violation(
                                    '%s/live/cut-changes-conversation/%s'
                                    % (PROP, tag),
                                    'cut %r changes the conversation: %r vs '
                                    '%r' % (cut, t_, tr), rep, size=len(t_))
                        res.count('states')
                        res.outcome(tuple(x[1][:12] for x in tr))
    # two connections one after the other in one process, the server having
    # replaced the secret under the same context and id in between: the
    # second handshake must use the keyring as it is then
    for unix in (False, True):
        try:
            outcomes = []
            for secret in (COOKIE, b'0ther5ecret', COOKIE, b'third'):
                rotate_cookie(secret)
                done, tr, viol, n = run_handshake(
                    (b'DBUS_COOKIE_SHA1',), b'AGREE_UNIX_FD', False, unix)
                outcomes.append(done)
                res.count('transitions')
                res.count('evaluations')
                res.count('traces')
                res.count('nontrivial')
                for sig, what in viol:
                    res.violation(sig + '/rotated-cookie', what,
                                  {'part': 'live-rotate', 'unix': unix},
                                  size=len(tr))
            if not all(outcomes):
                res.violation(
                    '%s/live/incomplete/rotated-cookie/%s'
                    % (PROP, 'unix' if unix else 'tcp'),
                    'four consecutive connections to a cookie-only server '
                    'that replaces the secret (same context and id) between '
                    'them completed: %r' % (outcomes,),
                    {'part': 'live-rotate', 'unix': unix}, size=4)
        finally:
            rotate_cookie(COOKIE)
        res.count('states')
    # a busy server: the keyring holds the cookies of many other exchanges
    # ahead of and behind the one this client is asked for
    modes = (0o700, 0o711, 0o710, 0o701)
    for bi, (before, after) in enumerate(
            [(b, a) for b in BUSY for a in (0, 3)] +
            [(0, a) for a in BUSY[3:]]):
        linked = None
        try:
            rotate_cookie(b'busy5ecret', before, after)
            # the keyring directory must not be readable or writable by
            # others; search permission for them is allowed (what libdbus
            # checks: mode & 066)
            os.chmod(scratch_keyring(), modes[bi % 4])
            # every fifth time the keyring directory is a symbolic link to
            # a properly protected directory elsewhere (a home directory
            # layout libdbus accepts: it follows the link)
            linked = None
            if bi % 5 == 4:
                real = scratch_keyring()
                linked = real + '-real'
                os.rename(real, linked)
                os.symlink(linked, real)
            for unix in (False, True):
                done, tr, viol, n = run_handshake(
                    (b'DBUS_COOKIE_SHA1',), b'AGREE_UNIX_FD', False, unix)
                res.count('transitions')
                res.count('evaluations')
                res.count('traces')
                res.count('nontrivial')
                res.count('states')
                rep = {'part': 'live-busy', 'unix': unix,
                       'before': before, 'after': after,
                       'mode': modes[bi % 4], 'linked': linked is not None}
                for sig, what in viol:
                    res.violation(sig + '/busy-keyring', what, rep,
                                  size=before + after)
                if not done:
                    res.violation(
                        '%s/live/incomplete/busy-keyring/%s'
                        % (PROP, 'unix' if unix else 'tcp'),
                        'cookie-only server whose keyring file (directory '
                        'mode %o) holds %d '
                        'cookies ahead of and %d behind the one named in '
                        'the challenge: the handshake did not complete: %r'
                        % (modes[bi % 4], before, after, tr[-5:]), rep,
                        size=before + after)
        finally:
            if linked is not None:
                os.unlink(scratch_keyring())
                os.rename(linked, scratch_keyring())
            os.chmod(scratch_keyring(), 0o700)
            rotate_cookie(COOKIE)
    # the application reconfigures the mechanism list while a handshake is in
    # flight
    for edit in ('none', 'remove-first', 'last-to-front', 'reverse',
                 'clear-and-refill'):
        for unix in (False, True):
            res.count('states')
            res.count('transitions', 5)
            res.count('evaluations')
            res.count('traces')
            res.count('nontrivial')
            for t_, w_ in run_reconfigured(edit, unix):
                res.violation('%s/%s' % (PROP, t_), w_,
                              {'part': 'reconfigured', 'edit': edit,
                               'unix': unix}, size=3)
    # a server whose cookie challenge names an id the client's keyring does
    # not hold: the client must abandon the mechanism properly and complete
    # with the next one the server accepts
    for accept in ((b'DBUS_COOKIE_SHA1', b'ANONYMOUS'),
                   (b'EXTERNAL', b'DBUS_COOKIE_SHA1', b'ANONYMOUS')[1:],):
        for unix in (False, True):
            for fd_answer in (b'AGREE_UNIX_FD', b'ERROR'):
                done, tr, viol, n = run_handshake(accept, fd_answer, False,
                                                  unix, stale=True)
                res.count('transitions')
                res.count('evaluations')
                res.count('traces')
                res.count('nontrivial')
                res.count('states')
                rep = {'part': 'live-stale', 'unix': unix,
                       'fd_answer': fd_answer.decode()}
                if not done:
                    res.violation(
                        '%s/live/incomplete/stale-cookie-id/%s'
                        % (PROP, 'unix' if unix else 'tcp'),
                        'server accepts ANONYMOUS after a cookie challenge '
                        'for an id the keyring lacks; the handshake did not '
                        'complete: %r' % (tr[-6:],), rep, size=len(tr))
                for sig, what in viol:
                    res.violation(sig + '/stale-cookie-id', what, rep,
                                  size=len(tr))
    res.sample({'reference_server_accepts': ['DBUS_COOKIE_SHA1'],
                'conversation': [(a, b.decode('latin-1')[:50])
                                 for a, b in run_handshake(
                                     (b'DBUS_COOKIE_SHA1',), b'ERROR', False,
                                     True)[1]]})
    return res


def run_reconfigured(edit, unix):
    """connection A is in the middle of its handshake when the application
    edits the class-level preference list in place to configure the next
    connection (and puts it back afterwards); the server refuses everything.
    A still offers no mechanism twice and offers every mechanism that was in
    the list both before and after the edit, then closes"""
    from txdbus import authentication as A
    viol = []
    pref = A.ClientAuthenticator.preference
    saved = list(pref)
    try:
        p, t = make_client(unix)
        offered = []

        def take():
            for kind, line in client_lines(t.take()):
                line = line.lstrip(b'\0')
                if kind == 'line' and line.startswith(b'AUTH '):
                    offered.append(line.split()[1])
        take()
        if edit == 'remove-first':
            pref.remove(saved[0])
        elif edit == 'last-to-front':
            pref.remove(saved[-1])
            pref.insert(0, saved[-1])
        elif edit == 'reverse':
            pref.reverse()
        elif edit == 'clear-and-refill':
            del pref[:]
            pref.extend(saved)
        kept = [m for m in saved if m in pref]
        for _ in range(8):
            if t.disconnecting:
                break
            p.dataReceived(b'REJECTED ' + b' '.join(saved) + b'\r\n')
            take()
        if len(set(offered)) != len(offered):
            viol.append(('reconfigured/%s/offered-twice' % edit,
                         'preference list %r edited in place (%s) while a '
                         'handshake was waiting for the answer to its first '
                         'AUTH; the server refusing everything, the '
                         'connection offered %r' % (saved, edit, offered)))
        missing = [m for m in kept if m not in offered]
        if missing:
            viol.append(('reconfigured/%s/skipped' % edit,
                         'preference list %r edited in place (%s, now %r) '
                         'while a handshake was waiting for the answer to '
                         'its first AUTH: the connection offered %r and '
                         'never %r' % (saved, edit, list(pref), offered,
                                       missing)))
        if not t.disconnecting:
            viol.append(('reconfigured/%s/not-closed' % edit,
                         'every mechanism refused, the connection is still '
                         'open; offered %r' % (offered,)))
    except Exception as e:
        viol.append(('reconfigured/%s/raises-%s' % (edit, type(e).__name__),
                     '%r' % (e,)))
    finally:
        pref[:] = saved
    return viol


def _client_transcript(unix, lines, mode):
    """what the client writes / whether it closes / authenticates when the
    given server lines arrive line by line, in one read, or byte by byte"""
    p, t = make_client(unix)
    data = b''.join(l + b'\r\n' for l in lines)
    if mode == 'lines':
        chunks = [l + b'\r\n' for l in lines]
    elif mode == 'one-read':
        chunks = [data]
    else:
        chunks = [data[i:i + 1] for i in range(len(data))]
    exc = None
    for ch in chunks:
        if t.disconnecting:
            break
        try:
            p.dataReceived(ch)
        except Exception as e:
            exc = type(e).__name__
            break
    return (t.written(), t.disconnecting, p.auth_calls, exc)


def _task_coalesced(task):
    """differential: however the server's lines are packed into reads, the
    client behaves as if they had arrived one by one (up to the point where
    it closes the connection)"""
    depth, unix = task
    res = core.Result()
    n = 0
    for seq in itertools.product(range(len(LINES)), repeat=depth):
        lines = [LINES[i] for i in seq]
        base = _client_transcript(unix, lines, 'lines')
        for mode in ('one-read', 'bytewise'):
            got = _client_transcript(unix, lines, mode)
            n += 1
            if got != base:
                res.violation(
                    '%s/coalesced/%s/%s' % (PROP, mode,
                                            'unix' if unix else 'tcp'),
                    'server lines %r delivered %s: client wrote %r (closed '
                    '%s, authenticated %d, exception %s); line by line it '
                    'wrote %r (closed %s, authenticated %d, exception %s)'
                    % ((lines, mode) + got + base),
                    {'part': 'coalesced', 'lines': [l.decode('latin-1')
                                                    for l in lines],
                     'unix': unix, 'mode': mode}, size=depth)
    res.count('states', len(LINES) ** depth)
    res.count('transitions', n)
    res.count('evaluations', n)
    res.count('traces', n)
    res.count('nontrivial', n)
    return res


def run(ctx):
    ctx.rule = (
        'part 1: breadth-first search to the fixpoint over sequences of %d '
        'server lines (OK with valid/missing/bad GUID, REJECTED, ERROR, DATA '
        'with empty / valid cookie challenge / bad hex, AGREE_UNIX_FD, BEGIN, '
        'unknown, empty) x {UNIX, non-UNIX transport}; after every line the '
        'client\'s writes are checked against S1 (BEGIN / binary only after '
        'a valid OK and an answered descriptor negotiation), S2 (AUTH lines '
        'a prefix of the preference order), S3 (next mechanism or close), S6 '
        '(a new AUTH only in reply to REJECTED/ERROR), S4 '
        '(close on lines outside the protocol), S5 (no stall, nothing after '
        'close). part 2: full handshakes against a conforming reference '
        'server for each of the 7 non-empty mechanism subsets x 3 answers to '
        'the descriptor negotiation x EXTERNAL with/without DATA round x '
        'both transports, each repeated under every single cut of every '
        'server line. part 3 (differential): every sequence of <= %d server '
        'lines delivered in one read and byte by byte must produce the '
        'transcript of line-by-line delivery'
        % (len(LINES), 2 if ctx.quick else 3))
    ctx.assumptions = [
        '$HOME points at a scratch directory holding .dbus-keyrings (also '
        'with 1..1000 cookies of other exchanges ahead of / behind the one '
        'asked for); '
        'os.urandom is fixed in the checker process',
        'which of OK-without-GUID / bad GUID / unknown / empty / BEGIN / '
        'unsolicited AGREE_UNIX_FD is "outside the protocol" is fixed in '
        'OUTSIDE']
    for unix in (0, 1, 2):
        explore.explore(ctx, ClientScenario, {'unix': unix}, max_depth=30,
                        label='client machine, %s transport'
                        % (('non-UNIX', 'UNIX', 'UNIX (interface provided '
                            'by the instance, as policy wrappers do)')[unix]))
    ctx.map(_task_live, [ctx.quick])
    depths = (1, 2) if ctx.quick else (1, 2, 3)
    ctx.map(_task_coalesced, [(d, u) for d in depths for u in (False, True)])
    ctx.bounds = {'lines': len(LINES)}


def replay(data):
    if 'scenario' in data:
        return explore.replay_violation(data)
    if data.get('part') == 'coalesced':
        lines = [l.encode('latin-1') for l in data['lines']]
        base = _client_transcript(data['unix'], lines, 'lines')
        got = _client_transcript(data['unix'], lines, data['mode'])
        if got != base:
            return [('%s/coalesced/%s' % (PROP, data['mode']),
                     '%r vs %r' % (got, base))]
        return []
    if data.get('part') == 'live-rotate':
        res = _task_live(True)
        return [(s, v['what']) for s, v in res.violations.items()
                if 'rotated' in s]
    if data.get('part') == 'reconfigured':
        return [('%s/%s' % (PROP, t), w) for t, w in
                run_reconfigured(data['edit'], data['unix'])]
    if data.get('part') == 'live-busy':
        linked = None
        try:
            rotate_cookie(b'busy5ecret', data['before'], data['after'])
            os.chmod(scratch_keyring(), data.get('mode', 0o700))
            linked = None
            if data.get('linked'):
                real = scratch_keyring()
                linked = real + '-real'
                os.rename(real, linked)
                os.symlink(linked, real)
            done, tr, viol, _ = run_handshake(
                (b'DBUS_COOKIE_SHA1',), b'AGREE_UNIX_FD', False,
                data['unix'])
        finally:
            if linked is not None:
                os.unlink(scratch_keyring())
                os.rename(linked, scratch_keyring())
            os.chmod(scratch_keyring(), 0o700)
            rotate_cookie(COOKIE)
        out = list(viol)
        if not done:
            out.append(('%s/live/incomplete/busy-keyring' % PROP,
                        repr(tr[-6:])))
        return out
    if data.get('part') == 'live-stale':
        done, tr, viol, _ = run_handshake(
            (b'DBUS_COOKIE_SHA1', b'ANONYMOUS'), data['fd_answer'].encode(),
            False, data['unix'], stale=True)
        out = list(viol)
        if not done:
            out.append(('%s/live/incomplete/stale-cookie-id' % PROP,
                        repr(tr[-6:])))
        return out
    cfg = data['cfg']
    done, tr, viol, _ = run_handshake(
        tuple(a.encode() for a in cfg['accept']), cfg['fd_answer'].encode(),
        cfg['external_data_first'], cfg['unix'],
        cut=tuple(data['cut']) if data.get('cut') else None)
    out = list(viol)
    if not done:
        out.append(('%s/live/incomplete' % PROP, repr(tr[-6:])))
    return out
