"""
C14 - the built-in bus gives every connection a fresh unique name and
delivers each addressed message exactly once to the connection owning the
destination at that moment, unchanged except for the true sender; bus-addressed
calls are answered and not forwarded; a broadcast reaches exactly the
connections holding a matching rule.
"""
from mcx import core, explore, fakes, refcodec as R
from mcx.checks import c12, c13

PROP = 'C14'
WELL = 'com.ex.W'

RULES = [
    {'type': 'signal', 'interface': 'a.b'},
    {'path_namespace': '/x'},
    # rules that would match traffic meant for the bus itself, were it
    # (wrongly) run through the rules
    {},
    {'type': 'method_call'},
    {'destination': 'org.freedesktop.DBus'},
    # constraints on the first argument: the empty string is a value like
    # any other
    {'arg0': ''},
    {'arg0': 'payload-5'},
    {'type': 'signal', 'interface': 'a.b', 'arg0': ''},
]
RULE_TEXT = ["type='signal',interface='a.b'", "path_namespace='/x'", "",
             "type='method_call'", "destination='org.freedesktop.DBus'",
             "arg0=''", "arg0='payload-5'",
             "type='signal',interface='a.b',arg0=''"]

# message templates: (type, destination kind, forged sender kind, flags,
#                     extra fields)
TEMPLATES = [
    (1, 'peer2', 'absent', 0, {'path': '/o', 'member': 'Call',
                               'interface': 'a.b'}),
    (1, 'well', 'other', 1, {'path': '/o', 'member': 'Call'}),
    (2, 'peer2', 'own', 0, {'reply_serial': 77}),
    (3, 'well', 'absent', 3, {'reply_serial': 78, 'error_name': 'a.b.Err'}),
    (4, 'peer2', 'other', 0, {'path': '/x/y', 'member': 'M',
                              'interface': 'a.b'}),
    (4, 'broadcast', 'absent', 0, {'path': '/s', 'member': 'M',
                                   'interface': 'a.b'}),
    (4, 'broadcast', 'own', 2, {'path': '/x', 'member': 'N',
                                'interface': 'a.c'}),
    (1, 'bus', 'other', 0, {'path': '/org/freedesktop/DBus',
                            'member': 'GetId',
                            'interface': 'org.freedesktop.DBus'}),
    (1, 'unowned', 'absent', 0, {'path': '/o', 'member': 'Call'}),
    (2, 'gone', 'absent', 0, {'reply_serial': 79}),
    (4, 'broadcast', 'other', 0, {'path': '/x/z', 'member': 'M',
                                  'interface': 'a.b'}),
    (1, 'peer1', 'own', 3, {'path': '/o', 'member': 'Call2',
                            'interface': 'a.c'}),
    # addressed to the bus, of the other three types
    (4, 'bus', 'absent', 0, {'path': '/x', 'member': 'M',
                             'interface': 'a.b'}),
    (2, 'bus', 'absent', 0, {'reply_serial': 80}),
    (3, 'bus', 'own', 0, {'reply_serial': 81, 'error_name': 'a.b.Err'}),
    (1, 'bus', 'absent', 0, {'path': '/org/freedesktop/DBus',
                             'member': 'Hello',
                             'interface': 'org.freedesktop.DBus'}),
    # a broadcast whose first argument is the empty string
    (4, 'broadcast', 'absent', 0, {'path': '/s', 'member': 'E',
                                   'interface': 'a.b'}),
]


class W:
    @property
    def owner(self):
        return self.names.owner[WELL]


class RouteScenario(explore.Scenario):
    name = 'C14/routing'

    def build(self):
        w = W()
        w.bw = fakes.BusWorld()
        w.peers = [w.bw.connect(hello=i not in self.params.get('nohello',
                                                               ()))
                   for i in range(3)]
        w.uniq = [p.name for p in w.peers]
        w.alive = [True, True, True]
        w.names = c13.Model(3, [WELL])  # reference name table (see C13)
        w.rules = {1: [], 2: []}     # multisets: a rule may be held twice
        w.queues = {0: [], 1: []}     # outbound, not yet consumed by the bus
        w.partial = {0: False, 1: False}
        w.sent_n = 0
        w.delivered = {0: [], 1: [], 2: []}   # serial sequence per receiver
        for p in w.peers:
            p.received()
        return w

    def enabled(self, w):
        evs = []
        nq = sum(len(q) for q in w.queues.values())
        senders = self.params.get('senders', [0, 1])
        if nq < self.params.get('max_queue', 2):
            for c in senders:
                if not w.alive[c]:
                    continue
                for ti in self.params['templates']:
                    if c == 1 and TEMPLATES[ti][1] == 'peer1':
                        continue
                    evs.append(('send', c, ti))
        for c in (0, 1):
            if w.queues[c] and w.alive[c]:
                evs.append(('consume', c))
                if not w.partial[c]:
                    evs.append(('part', c))
                    if len(w.queues[c]) > 1:
                        evs.append(('join', c))
        contenders = self.params.get('contenders', (1, 2))
        for c in (0, 1, 2):
            if not w.alive[c] or w.partial.get(c):
                # (a client in the middle of writing a message cannot start
                # another one)
                continue
            if c not in contenders:
                pass
            elif w.owner != c:
                evs.append(('own', c))
                if w.owner is not None and c not in w.names.waiters[WELL] \
                        and self.params.get('waiters'):
                    evs.append(('wait', c))
            if c in contenders and self.params.get('waiters') and (
                    w.owner == c or c in w.names.waiters[WELL]):
                evs.append(('release', c))
            if c == 0:
                continue
            for ri in self.params.get('rules', (0, 1)):
                cnt = w.rules[c].count(ri)
                if cnt:
                    evs.append(('rmmatch', c, ri))
                if cnt < self.params.get('copies', 1):
                    # (with copies=2: the same rule text added a second
                    # time, as two subscribers in one process do; each
                    # RemoveMatch takes one registration away)
                    evs.append(('addmatch', c, ri))
        if w.alive[2]:
            evs.append(('disc', 2))
        return evs

    def deviation(self, ev):
        return 1 if ev[0] in ('part', 'join') else 0

    # ------------------------------------------------------------------
    def _encode(self, w, c, ti):
        t, dk, fk, flags, extra = TEMPLATES[ti]
        f = dict(extra)
        dest = {'peer2': w.uniq[2], 'peer1': w.uniq[1], 'well': WELL,
                'bus': 'org.freedesktop.DBus', 'unowned': 'com.ex.Nobody',
                'gone': ':1.999', 'broadcast': None}[dk]
        if dest:
            f['destination'] = dest
        if fk == 'other':
            f['sender'] = w.uniq[2] if c != 2 else w.uniq[0]
        elif fk == 'own':
            f['sender'] = w.uniq[c]
        # content is a function of (client, template) only, so that the
        # canonical state (which records queued templates) determines every
        # byte still to be delivered
        w.sent_n += 1
        serial = 500 + 4 * ti + c
        body = ['payload-%d' % ti if ti != 16 else '']
        sig = 's'
        if ti % 3 == 1:
            # typed contents of variants (what a recipient written with
            # another library relies on) have to arrive as sent
            sig = 'sa{sv}v'
            body += [[['k', R.Var('u', 7)], ['p', R.Var('o', '/a/b')],
                      ['b', R.Var('y', 200)]],
                     R.Var('(tg)', [2**40, 'ai'])]
        elif ti % 3 == 2:
            sig = 'sux'
            body += [4000000000, -5]
        if dk == 'bus':
            sig, body = '', []
        raw = R.encode_message(t, serial, f, sig, body, flags=flags,
                               little=(ti % 2 == 0))
        return raw, {'c': c, 'ti': ti, 'serial': serial, 'fields': f,
                     'sig': sig, 'body': body, 'flags': flags, 'type': t,
                     'dk': dk}

    def _drain(self, w):
        out, bad = {}, []
        for c, p in enumerate(w.peers):
            try:
                msgs = p.received()
            except R.RefError as e:
                bad.append(('%s/garbled-output' % PROP,
                            'the bus wrote bytes to client %d that a strict '
                            'parser rejects: %s' % (c, e)))
                msgs = []
            if msgs and not w.alive[c]:
                bad.append(('%s/write-after-loss' % PROP,
                            'the bus wrote %d message(s) to the lost '
                            'connection %d' % (len(msgs), c)))
                msgs = []
            out[c] = msgs
        return out, bad

    def _not_forwarded(self, got, c, member):
        """a call a client makes to the bus shows up nowhere else"""
        bad = []
        for d, msgs in got.items():
            for m in msgs:
                if m['type'] == 1 and (d != c or
                                       m['fields'].get('member') == member):
                    bad.append(('%s/%s/forwarded' % (PROP, member),
                                'the %s call client %d made to the bus was '
                                'forwarded to client %d (%r)'
                                % (member, c, d, m['fields'])))
        return bad

    def advance(self, w, ev):
        self.apply(w, ev)

    def apply(self, w, ev):
        kind = ev[0]
        try:
            if kind == 'send':
                raw, meta = self._encode(w, ev[1], ev[2])
                w.queues[ev[1]].append((raw, meta))
                return []
            if kind == 'part':
                c = ev[1]
                raw, meta = w.queues[c][0]
                cut = 13 if len(raw) > 20 else 5
                w.peers[c].send_raw(raw[:cut])
                w.queues[c][0] = (raw[cut:], meta)
                w.partial[c] = True
                got, bad = self._drain(w)
                if any(got.values()):
                    bad.append(('%s/delivery-before-complete' % PROP,
                                'messages were delivered although only a '
                                'prefix of the message had arrived'))
                return bad
            if kind == 'join':
                # one read: the whole head message and the first bytes of
                # the one queued behind it
                c = ev[1]
                raw, meta = w.queues[c].pop(0)
                raw2, meta2 = w.queues[c][0]
                cut = 13 if len(raw2) > 20 else 5
                w.queues[c][0] = (raw2[cut:], meta2)
                w.partial[c] = True
                w.peers[c].send_raw(raw + raw2[:cut])
                got, bad = self._drain(w)
                return bad + self._check_delivery(w, meta, got)
            if kind == 'consume':
                c = ev[1]
                raw, meta = w.queues[c].pop(0)
                w.partial[c] = False
                w.peers[c].send_raw(raw)
                got, bad = self._drain(w)
                return bad + self._check_delivery(w, meta, got)
            if kind in ('own', 'wait'):
                c = ev[1]
                flags = 3 if kind == 'own' else 0
                want, acq, lost, replaced = w.names.request(c, WELL, flags)
                s = w.peers[c].call_bus('RequestName', 'su', [WELL, flags])
                got, bad = self._drain(w)
                rep = [m for m in got[c]
                       if m['fields'].get('reply_serial') == s]
                if len(rep) != 1 or rep[0]['body'] != [want]:
                    bad.append(('%s/%s' % (PROP, kind),
                                'RequestName(flags %d) answered %r, expected '
                                '%d' % (flags, [(m['type'], m['body'])
                                                for m in rep], want)))
                bad += self._not_forwarded(got, c, 'RequestName')
                if replaced is not None:
                    # whether a replaced owner waits is open: adopt it
                    s2 = w.peers[c].call_bus('ListQueuedOwners', 's', [WELL])
                    got2, bad2 = self._drain(w)
                    q = [m['body'][0] for m in got2[c]
                         if m['fields'].get('reply_serial') == s2
                         and m['type'] == 2]
                    if q and w.uniq[replaced] in q[0][1:]:
                        pos = q[0].index(w.uniq[replaced]) - 1
                        w.names.waiters[WELL].insert(pos, replaced)
                        w.names.allow[WELL][replaced] = None
                return bad
            if kind == 'release':
                c = ev[1]
                want, acq = w.names.release(c, WELL)
                s = w.peers[c].call_bus('ReleaseName', 's', [WELL])
                got, bad = self._drain(w)
                rep = [m for m in got[c]
                       if m['fields'].get('reply_serial') == s]
                if len(rep) != 1 or rep[0]['body'] != [want]:
                    bad.append(('%s/release' % PROP,
                                'ReleaseName answered %r, expected %d'
                                % ([(m['type'], m['body']) for m in rep],
                                   want)))
                bad += self._not_forwarded(got, c, 'ReleaseName')
                return bad
            if kind in ('addmatch', 'rmmatch'):
                c, ri = ev[1], ev[2]
                member = 'AddMatch' if kind == 'addmatch' else 'RemoveMatch'
                s = w.peers[c].call_bus(member, 's', [RULE_TEXT[ri]])
                got, bad = self._drain(w)
                rep = [m for m in got[c]
                       if m['fields'].get('reply_serial') == s]
                if len(rep) != 1 or rep[0]['type'] != 2:
                    bad.append(('%s/%s' % (PROP, member),
                                '%s(%r) answered %r'
                                % (member, RULE_TEXT[ri],
                                   [(m['type'], m['body']) for m in rep])))
                if kind == 'addmatch':
                    w.rules[c].append(ri)
                else:
                    w.rules[c].remove(ri)
                bad += self._not_forwarded(got, c, member)
                return bad
            if kind == 'disc':
                c = ev[1]
                w.alive[c] = False
                w.names.disconnect(c)
                w.peers[c].disconnect()
                w.rules[c] = []
                got, bad = self._drain(w)
                return bad
        except Exception as e:
            import traceback
            tb = traceback.extract_tb(e.__traceback__)
            where = '%s:%s' % (tb[-1].filename.split('/')[-1], tb[-1].name)
            return [('%s/%s/raises-%s/%s' % (PROP, kind, type(e).__name__,
                                            where),
                     'event %r raised %r at %s' % (ev, e, where))]
        return []

    def _check_delivery(self, w, meta, got):
        viol = []
        c = meta['c']
        dk = meta['dk']
        tag = 't%d/%s/sender-%s' % (meta['type'], dk,
                                    TEMPLATES[meta['ti']][2])
        want = {}                 # receiver -> 'once' | 'some'
        if dk in ('peer2', 'peer1'):
            d = 2 if dk == 'peer2' else 1
            if w.alive[d]:
                want[d] = 'once'
        elif dk == 'well':
            if w.owner is not None and w.alive[w.owner]:
                want[w.owner] = 'once'
        elif dk == 'broadcast':
            msg = {'type': meta['type'], 'fields': meta['fields'],
                   'body': meta['body']}
            for d in (1, 2):
                if w.alive[d] and any(c12.ref_match(RULES[ri], msg)
                                      for ri in w.rules[d]):
                    want[d] = 'some'
        for d in range(3):
            msgs = got[d]
            copies = [m for m in msgs if m['serial'] == meta['serial']
                      and m['type'] == meta['type']]
            others = [m for m in msgs if m not in copies]
            if dk == 'bus' and d == c and meta['type'] == 1:
                rep = [m for m in others
                       if m['fields'].get('reply_serial') == meta['serial']]
                # (a second Hello is refused: an error is its answer)
                if len(rep) != 1 or rep[0]['type'] != (
                        2 if meta['fields']['member'] == 'GetId' else 3):
                    viol.append(('%s/bus-call/reply/%s' % (PROP, tag),
                                 'a call to the bus got %r'
                                 % [(m['type'], m['body']) for m in rep]))
                others = [m for m in others if m not in rep]
            if dk in ('unowned', 'gone') and d == c:
                # an error reply to the sender is permitted
                others = [m for m in others if not (
                    m['type'] == 3 and
                    m['fields'].get('reply_serial') == meta['serial'])]
            if others:
                viol.append(('%s/stray/%s' % (PROP, tag),
                             'consuming %r made the bus write unrelated '
                             'messages to client %d: %r'
                             % (meta['fields'], d,
                                [(m['type'], m['fields'], m['body'])
                                 for m in others])))
            w_ = want.get(d)
            if w_ is None and copies:
                viol.append(('%s/misdelivered/%s' % (PROP, tag),
                             'message %r from client %d (owner of %s: %r, '
                             'rules %r) was delivered to client %d, which '
                             'should not get it'
                             % (meta['fields'], c, WELL, w.owner, w.rules, d)))
            elif w_ == 'once' and len(copies) != 1:
                viol.append(('%s/addressed/%d-copies/%s' % (PROP, len(copies),
                                                           tag),
                             'message %r from client %d must reach client %d '
                             'exactly once, it arrived %d times (owner of %s:'
                             ' %r, rules %r)' % (meta['fields'], c, d,
                                                len(copies), WELL, w.owner,
                                                w.rules)))
            elif w_ == 'some' and not copies:
                viol.append(('%s/broadcast/missed/%s' % (PROP, tag),
                             'broadcast %r matches a rule of client %d (%r) '
                             'but did not arrive'
                             % (meta['fields'], d, w.rules[d])))
            for m in copies:
                f = dict(meta['fields'])
                f['sender'] = w.uniq[c]
                if meta['sig']:
                    f['signature'] = meta['sig']
                problems = []
                if m['fields'] != f:
                    diff = {k: (m['fields'].get(k), f.get(k))
                            for k in set(f) | set(m['fields'])
                            if m['fields'].get(k) != f.get(k)}
                    problems.append('header fields differ: %r' % diff)
                if m['flags'] != meta['flags']:
                    problems.append('flags %d, sent %d'
                                    % (m['flags'], meta['flags']))
                if m['body'] != meta['body']:
                    problems.append('body %r, sent %r'
                                    % (m['body'], meta['body']))
                if problems:
                    viol.append(('%s/altered/%s/%s' % (
                        PROP, tag, problems[0].split()[0]),
                        'message from client %d arrived at %d altered: %s'
                        % (c, d, '; '.join(problems))))
        # (per-pair order: each client's queue is consumed first-in
        # first-out and every copy must arrive at the consumption step of its
        # own message - a copy showing up at any other step is reported as
        # stray above - so arrival order equals sending order)
        return viol

    def canon(self, w):
        q = tuple((c, tuple((m['ti'], len(raw)) for raw, m in w.queues[c]),
                   w.partial[c]) for c in (0, 1))
        # everything the bus and its connections hold (rule ids, per-
        # connection rule and name bookkeeping, buffers): two worlds are
        # merged only if the library itself cannot tell them apart
        impl = explore.impl_digest(w.bw.bus, [p.proto for p in w.peers],
                                   ignore=('uuid', 'transport', 'factory', '_endian'))
        return (tuple(w.alive), w.names.key(),
                tuple(sorted((c, tuple(sorted(r)))
                             for c, r in w.rules.items())), q, impl)

    def nontrivial(self, hist):
        return len({e[1] for e in hist if len(e) > 1}) > 1


class NameScenario(explore.Scenario):
    """connects and disconnects: unique names are never reused"""
    name = 'C14/unique-names'

    def build(self):
        w = W()
        w.bw = fakes.BusWorld()
        w.slots = [None, None, None]
        w.seen = []
        return w

    def enabled(self, w):
        evs = []
        for i, p in enumerate(w.slots):
            if p is None:
                evs.append(('conn', i))
            else:
                evs.append(('disc', i))
                evs.append(('hello2', i))
                evs.append(('ping', i))
        return evs

    def apply(self, w, ev):
        try:
            if ev[0] == 'conn':
                p = w.bw.connect()
                w.slots[ev[1]] = p
                if not p.name or not p.name.startswith(':'):
                    return [('%s/unique-name/none' % PROP,
                             'Hello answered %r' % (p.name,))]
                if p.name in w.seen:
                    return [('%s/unique-name/reused' % PROP,
                             'unique name %s given out twice (%r)'
                             % (p.name, w.seen))]
                w.seen.append(p.name)
            elif ev[0] == 'disc':
                w.slots[ev[1]].disconnect()
                w.slots[ev[1]] = None
            elif ev[0] == 'hello2':
                p = w.slots[ev[1]]
                s = p.call_bus('Hello')
                rep = [m for m in p.received()
                       if m['fields'].get('reply_serial') == s]
                if len(rep) != 1 or rep[0]['type'] != 3:
                    return [('%s/second-hello' % PROP,
                             'a second Hello was answered %r'
                             % [(m['type'], m['body']) for m in rep])]
            else:
                # a message to every name ever handed out: only live ones
                # receive it
                p = w.slots[ev[1]]
                for name in w.seen:
                    s = p.next_serial()
                    p.send_raw(R.encode_message(
                        1, s, {'path': '/o', 'member': 'Ping',
                               'destination': name}, 's', ['x']))
                    for q in w.slots:
                        if q is None:
                            continue
                        got = [m for m in q.received() if m['serial'] == s
                               and m['type'] == 1]
                        want = 1 if q.name == name else 0
                        if len(got) != want:
                            return [('%s/unique-name/delivery' % PROP,
                                     'a call to %s arrived %d times at %s'
                                     % (name, len(got), q.name))]
        except Exception as e:
            return [('%s/names/%s/raises-%s' % (PROP, ev[0],
                                                type(e).__name__),
                     'event %r raised %r' % (ev, e))]
        return []

    def canon(self, w):
        return (tuple(p is not None for p in w.slots), len(w.seen))


def run_long_lived(gap):
    """a long-lived bus: A stays connected while gap-1 short-lived
    connections come and go, then B connects: the two have different unique
    names, and a message to either name arrives exactly once, at that
    connection only, with the true sender"""
    viol = []
    try:
        w = fakes.BusWorld()
        a = w.connect()
        w.churn(gap - 1)
        b = w.connect()
        c = w.connect()
        where = ('A (%s) connected, %d connections came and went, B (%s) '
                 'and C (%s) connected' % (a.name, gap - 1, b.name, c.name))
        if len({a.name, b.name, c.name}) != 3 or None in (a.name, b.name,
                                                          c.name):
            viol.append(('long-lived/unique-name-reused', where))
            return viol
        for p_ in (a, b, c):
            p_.received()
        for k, (src, dst) in enumerate([(c, a), (c, b), (a, b), (b, a)]):
            serial = src.next_serial()
            src.send_raw(R.encode_message(
                R.METHOD_CALL, serial,
                {'path': '/o', 'member': 'Ping%d' % k, 'interface': 'a.b',
                 'destination': dst.name, 'sender': ':1.424242'}, 's',
                ['k%d' % k]))
            got = {p_.name: [m for m in p_.received()] for p_ in (a, b, c)}
            mine = got[dst.name]
            ok = len(mine) == 1 and mine[0]['type'] == 1 and \
                mine[0]['fields'].get('sender') == src.name and \
                mine[0]['fields'].get('member') == 'Ping%d' % k and \
                mine[0]['serial'] == serial and mine[0]['body'] == \
                ['k%d' % k] and \
                not any(v for n_, v in got.items() if n_ != dst.name)
            if not ok:
                viol.append(('long-lived/delivery',
                             '%s; a call from %s to %s arrived as %r'
                             % (where, src.name, dst.name,
                                {n_: [(m['type'], m['fields'].get('sender'),
                                       m['fields'].get('member'))
                                      for m in v] for n_, v in got.items()})))
    except Exception as e:
        viol.append(('long-lived/raises-%s' % type(e).__name__,
                     '%d connections between A and B: raised %r'
                     % (gap - 1, e)))
    return viol


def run_largest(total):
    """a message of `total` bytes (the protocol allows up to 2**27) whose
    forged sender field is as long as the true one: the bus hands it on with
    the same length"""
    viol = []
    try:
        w = fakes.BusWorld()
        a = w.connect()
        b = w.connect()
        forged = ':1.' + '9' * (len(a.name) - 3)
        f = {'path': '/o', 'member': 'Big', 'interface': 'a.b',
             'destination': b.name, 'sender': forged}
        probe = R.encode_message(R.METHOD_CALL, 7, f, 's', ['x' * 16])
        text = 'y' * (16 + total - len(probe))
        raw = R.encode_message(R.METHOD_CALL, 7, f, 's', [text])
        assert len(raw) == total
        del text
        b.received()
        a.send_raw(raw)
        data = b.transport.take()
        back = a.transport.take()
        del raw
        problems = []
        if len(data) != total:
            problems.append('%d bytes arrived' % len(data))
        else:
            try:
                m = R.parse_message(data)
                if m['type'] != 1 or m['serial'] != 7:
                    problems.append('type/serial %r/%r' % (m['type'],
                                                           m['serial']))
                wantf = dict(f, sender=a.name, signature='s')
                gotf = dict(m['fields'])
                gotf.setdefault('signature', 's')
                if gotf != wantf:
                    problems.append('header fields %r' % (m['fields'],))
                if len(m['body']) != 1 or \
                        m['body'][0] != 'y' * len(m['body'][0]) or \
                        len(m['body'][0]) != 16 + total - len(probe):
                    problems.append('body of %d values, first of length %d'
                                    % (len(m['body']), len(m['body'][0])
                                       if m['body'] else -1))
            except Exception as e:
                problems.append('unreadable: %r' % (e,))
        if problems:
            kind = 'dropped' if not data else 'changed'
            viol.append(('largest/%s' % kind,
                         'a valid message of %d bytes (limit 2**27 = %d) '
                         'addressed to another connection: %s; the sender '
                         'got %d bytes back (%r)'
                         % (total, 2 ** 27, '; '.join(problems), len(back),
                            back[:0] if len(back) > 4000 else
                            [(m['type'], m['fields'].get('error_name'))
                             for m in fakes.messages_of(back)])))
    except Exception as e:
        viol.append(('largest/raises-%s' % type(e).__name__,
                     'a message of %d bytes: raised %r' % (total, e)))
    return viol


def run_bus_signals():
    """signals the application running the bus emits through the Bus
    object's own sendSignal / broadcastSignal (member, signature, body,
    path=, interface=): they reach exactly the connections holding a
    matching rule, with the path and interface asked for"""
    viol = []
    try:
        w = fakes.BusWorld()
        peers = [w.connect() for _ in range(4)]
        rules = ["type='signal',path='/com/ex/Thing'",
                 "type='signal',path='/org/freedesktop/DBus'",
                 "type='signal',interface='com.ex.I'",
                 "type='signal',interface='org.freedesktop.DBus',"
                 "member='Tick'"]
        for p_, r in zip(peers, rules):
            s = p_.call_bus('AddMatch', 's', [r])
            p_.received()
        cases = [
            (dict(path='/com/ex/Thing', interface='com.ex.I'), {0, 2},
             '/com/ex/Thing', 'com.ex.I'),
            (dict(path='/com/ex/Other', interface='com.ex.I'), {2},
             '/com/ex/Other', 'com.ex.I'),
            (dict(path='/com/ex/Thing'), {0, 3}, '/com/ex/Thing',
             'org.freedesktop.DBus'),
            (dict(interface='com.ex.I'), {1, 2}, '/org/freedesktop/DBus',
             'com.ex.I'),
            (dict(), {1, 3}, '/org/freedesktop/DBus',
             'org.freedesktop.DBus'),
        ]
        for k, (kw, want, wpath, wiface) in enumerate(cases):
            w.bus.broadcastSignal('Tick', 'u', [k], **kw)
            got = {}
            for i, p_ in enumerate(peers):
                ms = [m for m in p_.received() if m['type'] == 4 and
                      m['fields'].get('member') == 'Tick']
                got[i] = [(m['fields'].get('path'),
                           m['fields'].get('interface'), m['body'])
                          for m in ms]
            ok = all((len(got[i]) >= 1) == (i in want) for i in got) and \
                all(g == (wpath, wiface, [k]) for i in got for g in got[i])
            if not ok:
                viol.append(('bus-signal/broadcast',
                             'Bus.broadcastSignal("Tick", "u", [%d], **%r) '
                             'with the rules %r: arrived %r, expected at '
                             'the holders %r as (%r, %r)'
                             % (k, kw, rules, got, sorted(want), wpath,
                                wiface)))
                break
        # sendSignal: unicast to one connection
        for k, kw in enumerate((dict(path='/com/ex/Thing',
                                     interface='com.ex.I'), dict())):
            w.bus.sendSignal(peers[1].proto, 'Direct', 's', ['x%d' % k],
                             **kw)
            got = {i: [(m['fields'].get('path'),
                        m['fields'].get('interface'), m['body'])
                       for m in p_.received() if m['type'] == 4 and
                       m['fields'].get('member') == 'Direct']
                   for i, p_ in enumerate(peers)}
            wp = kw.get('path', '/org/freedesktop/DBus')
            wi = kw.get('interface', 'org.freedesktop.DBus')
            if got != {0: [], 1: [(wp, wi, ['x%d' % k])], 2: [], 3: []}:
                viol.append(('bus-signal/send',
                             'Bus.sendSignal(<connection 1>, "Direct", ..., '
                             '**%r): arrived %r' % (kw, got)))
    except Exception as e:
        viol.append(('bus-signal/raises-%s' % type(e).__name__, '%r' % (e,)))
    return viol


def _task_long_lived(gap):
    res = core.Result()
    res.count('states')
    res.count('transitions', 6 if not isinstance(gap, int) else gap + 6)
    res.count('evaluations', 4)
    res.count('nontrivial')
    if gap == 'bus-signals':
        for t, w in run_bus_signals():
            res.violation('%s/%s' % (PROP, t), w, {'part': 'bus-signals'},
                          size=1)
        return res
    if isinstance(gap, tuple):
        for t, w in run_largest(gap[1]):
            res.violation('%s/%s' % (PROP, t), w,
                          {'part': 'largest', 'args': [gap[1]]}, size=1)
        return res
    for t, w in run_long_lived(gap):
        res.violation('%s/%s' % (PROP, t), w,
                      {'part': 'long-lived', 'args': [gap]}, size=gap)
    return res


def run(ctx):
    ctx.rule = (
        'routing: 3 scripted raw clients on a real Bus; events: client 0/1 '
        'puts one of %d message templates (all 4 types; destination = a '
        'unique name / a well-known name / an unowned name / a vanished '
        'unique name / the bus / none; sender field absent, forged as '
        'another client, or the true name; flag bits) into its outbound '
        'queue; the bus consumes the head of a queue whole or (one '
        'deviation) only a prefix first, or the head together with a prefix of the message behind it; clients 1/2 take over, queue for and '
        'release the well-known name, add/remove 2 match rules, client 2 disconnects. At '
        'each consumption the messages arriving at every client are parsed '
        'by the strict reference parser and compared with the reference bus '
        '(recipient by ownership at consumption time, exactly once, content '
        'identical but for the true sender, flags and typed header fields '
        'preserved, broadcasts by rule, bus calls answered and not '
        'forwarded, nothing written to a lost connection; a copy arriving at '
        'any step other than the consumption of its message is stray, which '
        'with first-in first-out consumption gives per-pair order). '
        'unique names: connect / disconnect / second Hello / calls to every '
        'name ever issued, to depth %d. One search uses rules on the first '
        'argument (the empty string, a value) and a broadcast whose first '
        'argument is empty; one lets a connection hold a rule twice (two '
        'AddMatch, one RemoveMatch leaves one). Long-lived bus: 254..257 / '
        '65534..65537 connections come and go between two that stay, then '
        'calls between those; messages of 2**16, 2**27-8 and exactly 2**27 '
        'bytes handed on' % (len(TEMPLATES),
                                           5 if ctx.quick else 7))
    ctx.assumptions = [
        'a connection holding several matching rules may receive a broadcast '
        'more than once (>= 1 copy demanded)',
        'a message to a name nobody owns may be answered with an error to '
        'the sender or dropped']
    alln = list(range(len(TEMPLATES)))
    if ctx.quick:
        explore.explore(ctx, RouteScenario,
                        {'templates': alln, 'max_queue': 1, 'senders': [0]},
                        max_depth=5, max_dev=1,
                        label='routing: 1 queued message, depth 5')
        explore.explore(ctx, RouteScenario,
                        {'templates': [0, 1, 4, 5, 11], 'max_queue': 2,
                         'senders': [0, 1]},
                        max_depth=4, max_dev=1,
                        label='routing: 2 senders, 2 queued, depth 4')
        explore.explore(ctx, RouteScenario,
                        {'templates': [5, 6, 10], 'max_queue': 1,
                         'senders': [0]},
                        max_depth=7, max_dev=0,
                        label='broadcasts and match rules, depth 7')
        explore.explore(ctx, RouteScenario,
                        {'templates': [5, 16, 10], 'max_queue': 1,
                         'senders': [0], 'rules': (5, 6, 7)},
                        max_depth=6, max_dev=0,
                        label='broadcasts under first-argument rules '
                              '(empty string, a value), depth 6')
        explore.explore(ctx, RouteScenario,
                        {'templates': [5, 10], 'max_queue': 1,
                         'senders': [0], 'rules': (0,), 'copies': 2},
                        max_depth=7, max_dev=0,
                        label='one rule held up to twice per connection '
                              '(added twice, removed once), depth 7')
        explore.explore(ctx, RouteScenario,
                        {'templates': [1, 3], 'max_queue': 1, 'senders': [0],
                         'waiters': True},
                        max_depth=6, max_dev=0,
                        label='routing to a queued-for name, depth 6')
        explore.explore(ctx, RouteScenario,
                        {'templates': [7, 12, 13, 14, 15, 5], 'max_queue': 1,
                         'senders': [0], 'rules': (2, 3, 4)},
                        max_depth=4, max_dev=0,
                        label='bus-addressed traffic under catch-all rules, '
                              'depth 4')
        explore.explore(ctx, RouteScenario,
                        {'templates': [1], 'max_queue': 1, 'senders': [0],
                         'waiters': True, 'contenders': (0, 1, 2),
                         'rules': ()},
                        max_depth=7, max_dev=0,
                        label='three contenders for the name, depth 7')
        explore.explore(ctx, RouteScenario,
                        {'templates': [1, 5, 4], 'max_queue': 1,
                         'senders': [0], 'waiters': True, 'nohello': (2,)},
                        max_depth=5, max_dev=0,
                        label='client 2 never says Hello, depth 5')
        explore.explore(ctx, NameScenario, {}, max_depth=5,
                        label='unique names, depth 5')
    else:
        explore.explore(ctx, RouteScenario,
                        {'templates': alln, 'max_queue': 1, 'senders': [0]},
                        max_depth=6, max_dev=1,
                        label='routing: 1 queued message, depth 6',
                        max_states=200000)
        explore.explore(ctx, RouteScenario,
                        {'templates': [0, 1, 2, 4, 5, 6, 11], 'max_queue': 3,
                         'senders': [0, 1]},
                        max_depth=6, max_dev=2,
                        label='routing: 2 senders, 3 queued, depth 6',
                        max_states=200000)
        explore.explore(ctx, RouteScenario,
                        {'templates': [1, 3, 5], 'max_queue': 1,
                         'senders': [0], 'waiters': True},
                        max_depth=7, max_dev=1,
                        label='routing to a queued-for name, depth 7',
                        max_states=200000)
        explore.explore(ctx, RouteScenario,
                        {'templates': [7, 12, 13, 14, 15, 5, 0],
                         'max_queue': 1, 'senders': [0, 1],
                         'rules': (2, 3, 4), 'waiters': True},
                        max_depth=6, max_dev=1,
                        label='bus-addressed traffic under catch-all rules, '
                              'depth 6', max_states=200000)
        explore.explore(ctx, RouteScenario,
                        {'templates': [1, 3], 'max_queue': 1, 'senders': [0, 1],
                         'waiters': True, 'contenders': (0, 1, 2),
                         'rules': ()},
                        max_depth=8, max_dev=0,
                        label='three contenders for the name, depth 8',
                        max_states=200000)
        explore.explore(ctx, RouteScenario,
                        {'templates': [1, 3, 5, 4], 'max_queue': 1,
                         'senders': [0], 'waiters': True, 'nohello': (2,)},
                        max_depth=7, max_dev=0,
                        label='client 2 never says Hello, depth 7',
                        max_states=200000)
        explore.explore(ctx, RouteScenario,
                        {'templates': [5, 16, 10, 6], 'max_queue': 1,
                         'senders': [0], 'rules': (5, 6, 7)},
                        max_depth=7, max_dev=0,
                        label='broadcasts under first-argument rules '
                              '(empty string, a value), depth 7',
                        max_states=300000)
        explore.explore(ctx, RouteScenario,
                        {'templates': [5, 10, 6], 'max_queue': 1,
                         'senders': [0], 'rules': (0, 1), 'copies': 2},
                        max_depth=8, max_dev=0,
                        label='rules held up to twice per connection, '
                              'depth 8', max_states=300000)
        explore.explore(ctx, NameScenario, {}, max_depth=7,
                        label='unique names, depth 7')
    from mcx import scale
    ctx.map(_task_long_lived, scale.LADDER_SMALL[3:] + scale.LADDER_WORD
            + [('largest', 2 ** 27), ('largest', 2 ** 27 - 8),
               ('largest', 2 ** 16), ('largest', 2 ** 16 + 8),
               'bus-signals'])
    ctx.bounds = {'clients': 3}


def replay(data):
    if data.get('part') == 'long-lived':
        return [('%s/%s' % (PROP, t), w) for t, w in
                run_long_lived(*data['args'])]
    if data.get('part') == 'bus-signals':
        return [('%s/%s' % (PROP, t), w) for t, w in run_bus_signals()]
    if data.get('part') == 'largest':
        return [('%s/%s' % (PROP, t), w) for t, w in
                run_largest(*data['args'])]
    return explore.replay_violation(data)
