"""
C12 - a signal reaches exactly the callbacks whose match rule it satisfies;
removed rules never fire again; the rule text sent to the bus expresses the
same constraints; proxy subscriptions check the declared signature.
"""
import itertools

from mcx import core, explore, fakes, refcodec as R

PROP = 'C12'

KEYS = ['type', 'interface', 'member', 'path', 'path_namespace',
        'destination', 'arg0', 'arg1', 'arg0path']
VALS = {
    'type': ['signal', 'method_call'],
    'interface': ['a.b', 'a.c'],
    'member': ['M', 'N'],
    'path': ['/a/b', '/a'],
    'path_namespace': ['/a/b', '/'],
    'destination': [':1.7', ':1.8'],
    'arg0': ['x', '/a/b'],
    'arg1': ['p', 'q,r=s'],
    'arg0path': ['/a/b', '/a/', '/a/b/'],
}
TYPE_NAMES = {1: 'method_call', 2: 'method_return', 3: 'error', 4: 'signal'}


def ref_match(rule, msg):
    """Independent matcher written from the statement.  rule: dict key ->
    value; msg: dict(type, fields, body)"""
    f = msg['fields']
    body = msg['body']
    for k, v in rule.items():
        if k == 'type':
            if TYPE_NAMES[msg['type']] != v:
                return False
        elif k in ('interface', 'member', 'path', 'destination'):
            if f.get(k) != v:
                return False
        elif k == 'path_namespace':
            p = f.get('path')
            if p is None:
                return False
            if not (p == v or v == '/' or p.startswith(v + '/')):
                return False
        elif k.startswith('arg') and k.endswith('path'):
            n = int(k[3:-4])
            if n >= len(body) or not isinstance(body[n], str):
                return False
            a = body[n]
            if not (a == v or (v.endswith('/') and a.startswith(v))
                    or (a.endswith('/') and v.startswith(a))):
                return False
        elif k.startswith('arg'):
            n = int(k[3:])
            if n >= len(body) or not isinstance(body[n], str) \
                    or body[n] != v:
                return False
        else:
            raise KeyError(k)
    return True


BODIES = [
    ('', []), ('s', ['x']), ('s', ['y']), ('u', [5]), ('ss', ['x', 'p']),
    ('ss', ['x', 'r']), ('ss', ['x', 'q,r=s']), ('ss', ['/a/b', 'q']),
    ('s', ['/a/b']), ('s', ['/a/b/']), ('s', ['/a/bc']),
    ('s', ['/a/']), ('s', ['/a']), ('s', ['/a/b/c']), ('us', [5, 'p']),
    ('o', ['/a/b']), ('s', ['/']), ('s', ['/a/b/c/']), ('s', ['']),
]


def messages(small=False):
    out = []
    paths = ['/', '/a', '/a/b', '/a/bc', '/a/b/c']
    for t in (4, 1, 2, 3):
        for (iface, member) in (('a.b', 'M'), ('a.b', 'N'), ('a.c', 'M'),
                                ('a.bb', 'MM')):
            for path in paths:
                for dest in (None, ':1.7', ':1.9'):
                    for sig, body in BODIES:
                        if small and (hash((t, iface, path, dest, sig,
                                            tuple(map(str, body)))) % 7):
                            continue
                        f = {}
                        if t in (1, 4):
                            f = {'path': path, 'member': member,
                                 'interface': iface}
                        else:
                            if (iface, member) != ('a.b', 'M') or \
                                    path != '/a/b':
                                continue
                            f = {'reply_serial': 3}
                            if t == 3:
                                f['error_name'] = 'a.b.E'
                        if dest:
                            f['destination'] = dest
                        out.append({'type': t, 'fields': f, 'sig': sig,
                                    'body': body})
    return out


def to_txmsg(m, serial=9):
    from txdbus import message as M
    raw = R.encode_message(m['type'], serial, m['fields'], m['sig'],
                           m['body'])
    return M.parseMessage(raw, [])


def rules(max_keys):
    out = []
    for n in range(0, max_keys + 1):
        for keys in itertools.combinations(KEYS, n):
            for vals in itertools.product(*[range(len(VALS[k]))
                                            for k in keys]):
                out.append({k: VALS[k][v] for k, v in zip(keys, vals)})
    return out


def router_kwargs(rule):
    kw = {}
    args, arg_paths = [], []
    for k, v in rule.items():
        if k == 'type':
            kw['mtype'] = v
        elif k.startswith('arg') and k.endswith('path'):
            arg_paths.append((int(k[3:-4]), v))
        elif k.startswith('arg'):
            args.append((int(k[3:]), v))
        else:
            kw[k] = v
    if args:
        kw['args'] = args
    if arg_paths:
        kw['arg_paths'] = arg_paths
    return kw


def _rtag(rule):
    return '+'.join(sorted(rule)) or 'empty'


def _task_pairs(task):
    max_keys, part, nparts = task
    from txdbus import router as RT
    res = core.Result()
    rs = [r for i, r in enumerate(rules(max_keys)) if i % nparts == part]
    msgs = messages()
    tx = [to_txmsg(m) for m in msgs]
    rt = RT.MessageRouter()
    hits = []
    ids = []
    for ri, r in enumerate(rs):
        def cb(m, ri=ri):
            hits.append(ri)
        ids.append(rt.addMatch(cb, **router_kwargs(r)))
    if len(set(ids)) != len(ids):
        res.violation('%s/router/duplicate-ids' % PROP,
                      'addMatch returned duplicate ids', {'part': 'pairs'},
                      size=1)
    for mi, (m, t) in enumerate(zip(msgs, tx)):
        del hits[:]
        try:
            rt.routeMessage(t)
        except Exception as e:
            res.violation('%s/router/raises-%s' % (PROP, type(e).__name__),
                          'routeMessage raised %r' % (e,), {'part': 'pairs'},
                          size=1)
            continue
        got = sorted(hits)
        want = [ri for ri, r in enumerate(rs) if ref_match(r, m)]
        res.count('transitions', len(rs))
        if got != want:
            cnt = {}
            for h in got:
                cnt[h] = cnt.get(h, 0) + 1
            for ri in set(got) | set(want):
                g, wn = cnt.get(ri, 0), (1 if ri in want else 0)
                if g != wn:
                    r = rs[ri]
                    res.violation(
                        '%s/match/%s/%s' % (PROP, _rtag(r),
                                            'missed' if g < wn else
                                            'spurious' if wn == 0 else
                                            'repeated'),
                        'rule %r against %s %r body %r: callback ran %d '
                        'time(s), expected %d'
                        % (r, TYPE_NAMES[m['type']], m['fields'], m['body'],
                           g, wn),
                        {'part': 'pair', 'rule': r, 'msg': m},
                        size=len(r))
        if want:
            res.count('nontrivial')
    res.count('states', len(rs))
    res.count('evaluations', len(rs) * len(msgs))
    res.count('traces', len(rs) * len(msgs))
    if rs:
        res.sample({'rule': rs[-1], 'messages': len(msgs)})
    return res


# ---------------------------------------------------------------------------
# B: add / remove / route histories through the client connection

SPECS = [
    {'type': 'signal', 'interface': 'a.b', 'member': 'M'},
    {'path_namespace': '/a/b'},
    {'type': 'signal', 'arg0': 'x'},
    # no constraint at all: the match-everything rule (its text is empty)
    {},
]
ROUTE = [
    {'type': 4, 'fields': {'path': '/a/b', 'member': 'M', 'interface': 'a.b'},
     'sig': 's', 'body': ['x']},
    {'type': 4, 'fields': {'path': '/a/bc', 'member': 'M',
                           'interface': 'a.b'}, 'sig': '', 'body': []},
    {'type': 4, 'fields': {'path': '/a/b/c', 'member': 'N',
                           'interface': 'a.c'}, 'sig': 's', 'body': ['x']},
]


class W:
    pass


class HistoryScenario(explore.Scenario):
    name = 'C12/history'

    def build(self):
        w = W()
        w.cw = fakes.ClientWorld()
        w.cw.sent()
        w.live = {}          # rule id -> (spec index, instance tag)
        w.removed = set()
        w.hits = []
        w.adds = 0
        w.bus_serial = 3000
        w.texts = {}
        w.rid_of = {}
        w.shot = set()
        return w

    def close(self, w):
        w.cw.close()

    def enabled(self, w):
        evs = []
        if w.adds < self.params['max_adds']:
            evs += [('add', i) for i in range(len(SPECS))]
            # the bus refuses the rule (limits exceeded): nothing is
            # registered, the callback never runs
            evs += [('addfail', i) for i in range(len(SPECS))]
        evs += [('del', rid) for rid in sorted(w.live)]
        evs += [('route', j) for j in range(len(ROUTE))]
        return evs

    def _reply(self, w, serial):
        w.bus_serial += 1
        w.cw.conn.dataReceived(R.encode_message(
            R.METHOD_RETURN, w.bus_serial, {'reply_serial': serial}))

    def apply(self, w, ev):
        conn = w.cw.conn
        viol = []
        try:
            if ev[0] in ('add', 'addfail'):
                spec = SPECS[ev[1]]
                tag = w.adds
                w.adds += 1

                oneshot = self.params.get('oneshot') and tag % 2 == 0

                def cb(m, tag=tag, oneshot=oneshot):
                    w.hits.append(tag)
                    if oneshot and tag in w.rid_of and tag not in w.shot:
                        # a one-shot handler: it cancels its own rule from
                        # inside the delivery
                        w.shot.add(tag)
                        conn.delMatch(w.rid_of[tag]).addBoth(lambda _: None)
                    if tag % 2 == 1:
                        raise RuntimeError('callback %d raises' % tag)
                kw = {}
                rkw = router_kwargs(spec)
                if 'mtype' in rkw:
                    kw['mtype'] = rkw.pop('mtype')
                if 'args' in rkw:
                    kw['arg'] = rkw.pop('args')
                if 'arg_paths' in rkw:
                    kw['arg_path'] = rkw.pop('arg_paths')
                kw.update(rkw)
                got = []
                d = conn.addMatch(cb, **kw)
                d.addBoth(got.append)
                msgs = w.cw.sent()
                if len(msgs) != 1 or msgs[0]['fields'].get('member') != \
                        'AddMatch':
                    return [('%s/history/addmatch-call' % PROP,
                             'addMatch wrote %r' % (msgs,))]
                if ev[0] == 'addfail':
                    w.bus_serial += 1
                    w.cw.conn.dataReceived(R.encode_message(
                        R.ERROR, w.bus_serial,
                        {'reply_serial': msgs[0]['serial'], 'error_name':
                         'org.freedesktop.DBus.Error.LimitsExceeded'}, 's',
                        ['too many rules']))
                    if len(got) != 1 or isinstance(got[0], int):
                        return [('%s/history/addmatch-refused-result' % PROP,
                                 'the bus refused AddMatch; the addMatch '
                                 'Deferred gave %r' % (got,))]
                    return viol
                self._reply(w, msgs[0]['serial'])
                if len(got) != 1 or not isinstance(got[0], int):
                    return [('%s/history/addmatch-result' % PROP,
                             'addMatch Deferred gave %r' % (got,))]
                rid = got[0]
                if rid in w.live:
                    viol.append(('%s/history/id-reused' % PROP,
                                 'addMatch returned id %r which is still in '
                                 'use by a live rule' % (rid,)))
                w.live[rid] = (ev[1], tag)
                w.rid_of[tag] = rid
                w.texts[rid] = msgs[0]['body'][0]
            elif ev[0] == 'del':
                rid = ev[1]
                got = []
                d = conn.delMatch(rid)
                d.addBoth(got.append)
                msgs = w.cw.sent()
                ok = len(msgs) == 1 and \
                    msgs[0]['fields'].get('member') == 'RemoveMatch' and \
                    msgs[0]['body'] == [w.texts[rid]]
                if not ok:
                    viol.append(('%s/history/removematch-call' % PROP,
                                 'delMatch(%r) wrote %r, the rule was added '
                                 'as %r' % (rid, [(m['fields'].get('member'),
                                                   m['body']) for m in msgs],
                                            w.texts[rid])))
                if msgs:
                    self._reply(w, msgs[0]['serial'])
                del w.live[rid]
            else:
                m = ROUTE[ev[1]]
                del w.hits[:]
                w.bus_serial += 1
                conn.dataReceived(R.encode_message(
                    m['type'], w.bus_serial, m['fields'], m['sig'],
                    m['body']))
                want = sorted(tag for rid, (si, tag) in w.live.items()
                              if ref_match(SPECS[si], m))
                # rules cancelled from inside their handlers: the harness
                # plays the bus for the RemoveMatch calls they caused
                for mm in w.cw.sent():
                    if mm['fields'].get('member') == 'RemoveMatch':
                        self._reply(w, mm['serial'])
                for tag in list(w.shot):
                    rid = w.rid_of.get(tag)
                    if rid in w.live and w.live[rid][1] == tag:
                        del w.live[rid]
                if sorted(w.hits) != want:
                    live = {tag: SPECS[si] for rid, (si, tag)
                            in w.live.items()}
                    kind = 'missed' if set(want) - set(w.hits) else \
                        'after-removal' if set(w.hits) - set(live) else \
                        'spurious-or-repeated'
                    viol.append((
                        '%s/history/%s' % (PROP, kind),
                        'live rules %r; signal %r %r: callbacks %r ran, '
                        'expected %r' % (live, m['fields'], m['body'],
                                         sorted(w.hits), want)))
        except Exception as e:
            return [('%s/history/%s/raises-%s' % (PROP, ev[0],
                                                  type(e).__name__),
                     'event %r raised %r' % (ev, e))]
        return viol

    def canon(self, w):
        # the harness's view and what the connection itself holds (a rule
        # the library failed to drop makes a different world)
        c = w.cw.conn
        return (tuple(sorted((rid, si) for rid, (si, tag) in w.live.items())),
                w.adds,
                explore.impl_digest(getattr(c, 'router', None),
                                    getattr(c, 'match_rules', None)))

    def nontrivial(self, hist):
        return any(e[0] == 'del' for e in hist)


# ---------------------------------------------------------------------------
# C: rule text

def parse_rule_text(text):
    """independent parser of a match rule string: key='value' pairs"""
    out = {}
    i = 0
    n = len(text)
    while i < n:
        j = text.index('=', i)
        key = text[i:j].strip()
        if text[j + 1] != "'":
            raise ValueError('value of %s not quoted' % key)
        k = text.index("'", j + 2)
        out[key] = text[j + 2:k]
        i = k + 1
        if i < n:
            if text[i] != ',':
                raise ValueError('junk after value of %s' % key)
            i += 1
    return out


def argindex_rules():
    """one argument constraint at every index the specification allows
    (0..63), as exact string and as path"""
    out = []
    for n in range(64):
        out.append({'type': 'signal', 'arg%d' % n: 'x'})
        out.append({'arg%dpath' % n: '/a/'})
        if n in (0, 9, 10, 63):
            out.append({'arg%d' % n: 'x', 'arg%d' % ((n + 11) % 64): 'y'})
    return out


def argindex_messages(rule):
    """signals whose argument at each constrained index matches / differs /
    is missing / is not a string"""
    idx = sorted(int(k[3:].replace('path', '')) for k in rule
                 if k.startswith('arg'))
    top = idx[-1]
    out = []
    f = {'path': '/a/b', 'member': 'M', 'interface': 'a.b'}
    good = {}
    for k, v in rule.items():
        if k.startswith('arg'):
            good[int(k[3:].replace('path', ''))] = \
                '/a/b' if k.endswith('path') else v
    base = ['f%d' % i for i in range(top + 1)]
    for i, v in good.items():
        base[i] = v
    out.append({'type': 4, 'fields': f, 'sig': 's' * len(base),
                'body': list(base)})
    for k in rule:
        if k.endswith('path'):
            i = int(k[3:-4])
            # both ending in '/', either a prefix of the other; near misses
            for other in ('/', '/a/', '/a/b/', '/a', '/ab/', ''):
                b = list(base)
                b[i] = other
                out.append({'type': 4, 'fields': f, 'sig': 's' * len(b),
                            'body': b})
    for i in idx:
        for wrong in ('z', '/b/'):
            b = list(base)
            b[i] = wrong
            out.append({'type': 4, 'fields': f, 'sig': 's' * len(b),
                        'body': b})
        b = list(base)
        b[i] = 7
        out.append({'type': 4, 'fields': f,
                    'sig': ''.join('u' if j == i else 's'
                                   for j in range(len(b))), 'body': b})
        # the constrained value one place too early / the body too short
        out.append({'type': 4, 'fields': f, 'sig': 's' * i,
                    'body': list(base[:i])})
        if i:
            b = ['f'] * (i - 1) + [base[i]]
            out.append({'type': 4, 'fields': f, 'sig': 's' * len(b),
                        'body': b})
    out.append({'type': 1, 'fields': f, 'sig': 's' * len(base),
                'body': list(base)})
    return out


def _task_argindex_router(task):
    part, nparts = task
    from txdbus import router as RT
    res = core.Result()
    for r in argindex_rules()[part::nparts]:
        res.count('states')
        rt = RT.MessageRouter()
        hits = []
        try:
            rt.addMatch(lambda m: hits.append(1), **router_kwargs(r))
        except Exception as e:
            res.violation('%s/argindex/router-raises-%s'
                          % (PROP, type(e).__name__),
                          'MessageRouter.addMatch(%r) raised %r' % (r, e),
                          {'part': 'argindex', 'rule': r}, size=1)
            continue
        for m in argindex_messages(r):
            res.count('transitions')
            res.count('evaluations')
            del hits[:]
            try:
                rt.routeMessage(to_txmsg(m))
            except Exception as e:
                hits.append(repr(e))
            want = 1 if ref_match(r, m) else 0
            if want:
                res.count('nontrivial')
            if hits != [1] * want:
                res.violation(
                    '%s/argindex/router/%s' % (PROP, 'missed' if want
                                               else 'spurious'),
                    'rule %r against %s body %r: callback ran %r, expected '
                    '%d' % (r, TYPE_NAMES[m['type']], m['body'], hits, want),
                    {'part': 'pair', 'rule': r, 'msg': m}, size=len(r))
    return res


def _task_text(task):
    max_keys, part, nparts = task
    res = core.Result()
    if max_keys == 'argindex':
        rs = argindex_rules()[part::nparts]
    else:
        rs = [r for i, r in enumerate(rules(max_keys)) if i % nparts == part]
    std_msgs = [m for m in messages(small=True) if m['type'] == 4
                and 'destination' not in m['fields']]
    for r in rs:
        msgs = std_msgs if max_keys != 'argindex' else \
            [m for m in argindex_messages(r) if m['type'] == 4]
        res.count('states')
        res.count('transitions')
        res.count('evaluations')
        cw = fakes.ClientWorld()
        try:
            cw.sent()
            rkw = router_kwargs(r)
            kw = {}
            if 'mtype' in rkw:
                kw['mtype'] = rkw.pop('mtype')
            if 'args' in rkw:
                kw['arg'] = rkw.pop('args')
            if 'arg_paths' in rkw:
                kw['arg_path'] = rkw.pop('arg_paths')
            kw.update(rkw)
            cw.conn.addMatch(lambda m: None, **kw)
            sent = cw.sent()
            text = sent[0]['body'][0]
        except Exception as e:
            res.violation('%s/text/raises-%s' % (PROP, type(e).__name__),
                          'addMatch(%r) raised %r' % (r, e),
                          {'part': 'text', 'rule': r, 'argindex': max_keys == 'argindex'}, size=len(r))
            continue
        finally:
            cw.close()
        try:
            parsed = parse_rule_text(text)
        except Exception as e:
            parsed = {'<unparseable>': str(e)}
        if parsed != r:
            res.violation('%s/text/%s' % (PROP, _rtag(r)),
                          'rule %r was sent to the bus as %r, which says %r'
                          % (r, text, parsed), {'part': 'text', 'rule': r, 'argindex': max_keys == 'argindex'},
                          size=len(r))
            continue
        # the built-in bus must understand the same text the same way
        bw = fakes.BusWorld()
        holder = bw.connect()
        sender = bw.connect()
        other = bw.connect()
        holder.call_bus('AddMatch', 's', [text])
        rep = holder.received()
        if not rep or rep[-1]['type'] != 2:
            res.violation('%s/text/bus-refuses/%s' % (PROP, _rtag(r)),
                          'the bus answered AddMatch(%r) with %r'
                          % (text, [(m['type'], m['body']) for m in rep]),
                          {'part': 'text', 'rule': r, 'argindex': max_keys == 'argindex'}, size=len(r))
            continue
        for m in msgs:
            res.count('transitions')
            f = dict(m['fields'])
            sender.send_raw(R.encode_message(4, sender.next_serial(), f,
                                             m['sig'], m['body']))
            got = [x for x in holder.received() if x['type'] == 4]
            stray = other.received()
            want = 1 if ref_match(r, m) else 0
            if len(got) != want or stray:
                res.violation(
                    '%s/text/bus-match/%s/%s' % (
                        PROP, _rtag(r), 'missed' if len(got) < want
                        else 'spurious'),
                    'bus rule %r, broadcast %r body %r: holder received %d '
                    'copies (expected %d), bystander %d'
                    % (text, f, m['body'], len(got), want, len(stray)),
                    {'part': 'text', 'rule': r, 'argindex': max_keys == 'argindex'}, size=len(r))
                break
        res.count('nontrivial')
        # removal at the bus: two connections hold the identical rule text;
        # the one that removes it stops receiving, the other does not
        hit = next((m for m in msgs if ref_match(r, m)), None)
        if hit is None:
            continue
        other.call_bus('AddMatch', 's', [text])
        other.received()
        for remover, keeper in ((other, holder), (holder, None)):
            remover.call_bus('RemoveMatch', 's', [text])
            rep = remover.received()
            if not rep or rep[-1]['type'] != 2:
                res.violation('%s/text/bus-remove-refused/%s'
                              % (PROP, _rtag(r)),
                              'RemoveMatch(%r) was answered %r'
                              % (text, [(m['type'], m['body'])
                                        for m in rep]),
                              {'part': 'text', 'rule': r, 'argindex': max_keys == 'argindex'}, size=len(r))
                break
            sender.send_raw(R.encode_message(
                4, sender.next_serial(), dict(hit['fields']), hit['sig'],
                hit['body']))
            res.count('transitions')
            got_r = [x for x in remover.received() if x['type'] == 4]
            got_k = [x for x in keeper.received() if x['type'] == 4] \
                if keeper is not None else []
            if got_r or (keeper is not None and len(got_k) != 1):
                res.violation(
                    '%s/text/bus-remove/%s' % (PROP, _rtag(r)),
                    'two connections held %r; after one removed it a '
                    'matching broadcast reached the remover %d time(s) and '
                    'the other holder %d time(s)'
                    % (text, len(got_r), len(got_k)),
                    {'part': 'text', 'rule': r, 'argindex': max_keys == 'argindex'}, size=len(r))
                break
    if rs:
        res.sample({'rule': rs[-1], 'as_text': "see client AddMatch body"})
    return res


# ---------------------------------------------------------------------------
# D: proxy signal subscription

def _task_proxy(_):
    from txdbus import interface as I
    res = core.Result()
    cases = [
        # (signal declared sig, delivered (path, iface, member, sig, body),
        #  expected callback args or None)
        ('s', ('/obj', 'org.ex.S', 'Sig', 's', ['v']), ('v',)),
        ('s', ('/obj', 'org.ex.S', 'Sig', 'u', [5]), None),
        ('s', ('/obj', 'org.ex.S', 'Sig', '', []), None),
        ('s', ('/obj', 'org.ex.S', 'Sig', 'ss', ['v', 'w']), None),
        ('s', ('/objx', 'org.ex.S', 'Sig', 's', ['v']), None),
        ('s', ('/obj', 'org.ex.T', 'Sig', 's', ['v']), None),
        ('s', ('/obj', 'org.ex.S', 'Sigg', 's', ['v']), None),
        ('', ('/obj', 'org.ex.S', 'Sig', '', []), ()),
        # the same with the SIGNATURE field present and empty (what this
        # library's own emitSignal writes; absent means the same)
        ('', ('/obj', 'org.ex.S', 'Sig', 'explicit-empty', []), ()),
        ('s', ('/obj', 'org.ex.S', 'Sig', 'explicit-empty', []), None),
        ('', ('/obj', 'org.ex.S', 'Sig', 's', ['v']), None),
        ('si', ('/obj', 'org.ex.S', 'Sig', 'si', ['v', 3]), ('v', 3)),
        ('(si)', ('/obj', 'org.ex.S', 'Sig', '(si)', [['v', 3]]),
         (['v', 3],)),
    ]
    for declared, (path, iface, member, sig, body), want in cases:
        for cancel_first in (False, True, 'shadowed'):
            res.count('states')
            res.count('transitions')
            res.count('evaluations')
            res.count('traces')
            res.count('nontrivial')
            cw = fakes.ClientWorld()
            ki = None
            try:
                cw.sent()
                if cancel_first == 'shadowed':
                    # the process knows another definition under the same
                    # interface name (other signature for the signal); the
                    # proxy is given its own interface object
                    cancel_first = False
                    ki = fakes.KnownInterfaces().__enter__()
                    I.DBusInterface('org.ex.S', I.Signal(
                        'Sig', 'u' if declared != 'u' else 's'),
                        I.Signal('Other', 's'))
                ifc = I.DBusInterface('org.ex.S', I.Signal('Sig', declared),
                                      noRegister=True)
                got = []
                out = []
                cw.conn.getRemoteObject('org.ex.Dest', '/obj', ifc)\
                    .addCallback(out.append)
                prox = out[0]
                calls = []
                ids = []
                prox.notifyOnSignal('Sig', lambda *a: calls.append(a))\
                    .addBoth(ids.append)
                m = cw.sent()
                text = m[0]['body'][0]
                want_rule = {'type': 'signal', 'path': '/obj',
                             'member': 'Sig', 'interface': 'org.ex.S'}
                if parse_rule_text(text) != want_rule:
                    res.violation('%s/proxy/rule-text' % PROP,
                                  'notifyOnSignal subscribed with %r' % text,
                                  {'part': 'proxy'}, size=1)
                cw.deliver(R.encode_message(R.METHOD_RETURN, 3001,
                                            {'reply_serial': m[0]['serial']}))
                if cancel_first:
                    prox.cancelSignalNotification(ids[0])
                    m2 = cw.sent()
                    if not m2 or m2[0]['fields'].get('member') != \
                            'RemoveMatch' or m2[0]['body'] != [text]:
                        res.violation('%s/proxy/cancel-call' % PROP,
                                      'cancelSignalNotification wrote %r'
                                      % [(x['fields'].get('member'),
                                          x['body']) for x in m2],
                                      {'part': 'proxy'}, size=1)
                    else:
                        cw.deliver(R.encode_message(
                            R.METHOD_RETURN, 3002,
                            {'reply_serial': m2[0]['serial']}))
                sf = {'path': path, 'interface': iface, 'member': member}
                if sig == 'explicit-empty':
                    sf['signature'] = ''
                    sig = ''
                cw.deliver(R.encode_message(R.SIGNAL, 3003, sf, sig, body))
                exp = [] if (want is None or cancel_first) else [want]
                norm = [tuple(a) for a in calls]
                if norm != exp:
                    res.violation(
                        '%s/proxy/%s/%s' % (
                            PROP, 'cancelled' if cancel_first else
                            'declared-%s-got-%s' % (declared or 'none',
                                                    sig or 'none'),
                            'called' if norm else 'not-called'),
                        'signal declared %r; delivered %r %r on %s %s.%s%s: '
                        'callback invocations %r, expected %r'
                        % (declared, sig, body, path, iface, member,
                           ' after cancelling' if cancel_first else '',
                           norm, exp), {'part': 'proxy'}, size=1)
            except Exception as e:
                res.violation('%s/proxy/raises-%s' % (PROP, type(e).__name__),
                              'proxy subscription case raised %r' % (e,),
                              {'part': 'proxy'}, size=1)
            finally:
                cw.close()
                if ki is not None:
                    ki.__exit__()
    # the signal bytes written by the library's own emitter (emitSignal of
    # an exported object on another connection) instead of the reference
    # encoder's
    from txdbus import objects as O
    for declared, args, want in (('', (), ()), ('s', ('v',), ('v',)),
                                 ('si', ('v', 3), ('v', 3)),
                                 ('as', (['a', 'b'],), (['a', 'b'],))):
        res.count('states')
        res.count('transitions', 2)
        res.count('evaluations')
        res.count('traces')
        res.count('nontrivial')
        a, b = fakes.ClientWorld(), fakes.ClientWorld()
        try:
            a.sent()
            b.sent()
            ifc = I.DBusInterface('org.ex.S', I.Signal('Sig', declared),
                                  noRegister=True)

            class Emitter(O.DBusObject):
                dbusInterfaces = [ifc]
            obj = Emitter('/obj')
            a.conn.exportObject(obj)
            a.transport.take()
            out = []
            b.conn.getRemoteObject('org.ex.Dest', '/obj', ifc)\
                .addCallback(out.append)
            calls = []
            out[0].notifyOnSignal('Sig', lambda *x: calls.append(x))
            m = b.sent()
            b.deliver(R.encode_message(R.METHOD_RETURN, 3001,
                                       {'reply_serial': m[0]['serial']}))
            obj.emitSignal('Sig', *args)
            raw = a.transport.take()
            b.deliver(raw)
            if [tuple(c) for c in calls] != [want]:
                res.violation('%s/proxy/emitted/declared-%s'
                              % (PROP, declared or 'none'),
                              'a signal declared %r, emitted by an exported '
                              'object with %r and handed to a subscribed '
                              'proxy: callback invocations %r, expected %r '
                              '(wire %s)' % (declared, args, calls, [want],
                                             raw.hex()[:160]),
                              {'part': 'proxy'}, size=1)
        except Exception as e:
            res.violation('%s/proxy/emitted/raises-%s'
                          % (PROP, type(e).__name__),
                          'emitting %r %r to a subscribed proxy raised %r'
                          % (declared, args, e), {'part': 'proxy'}, size=1)
        finally:
            b.close()
            a.close()
    return res


class ProxyScenario(explore.Scenario):
    """signal subscriptions of four proxies on two connections of one
    process (two of them for the same object on the same connection, i.e.
    with identical rule text): subscribe, cancel, cancel the same
    subscription once more, deliver.  The harness plays the bus: it keeps
    the multiset of rule texts each connection has added and not removed,
    answers RemoveMatch only when told to (so a second cancel can come
    before the answer), and hands a signal to a connection only if one of
    its rules matches."""
    name = 'C12/proxies'
    PROXIES = [(0, '/obj'), (1, '/obj'), (0, '/obj2'), (0, '/obj')]

    def build(self):
        from txdbus import interface as I
        w = W()
        w.cws = [fakes.ClientWorld(), fakes.ClientWorld()]
        ifc = I.DBusInterface('org.ex.S', I.Signal('Sig', 's'),
                              noRegister=True)
        w.prox = []
        for ci, path in self.PROXIES:
            out = []
            w.cws[ci].conn.getRemoteObject('org.ex.Dest', path, ifc)\
                .addCallback(out.append)
            w.prox.append(out[0])
        for cw in w.cws:
            cw.sent()
        w.subs = {}          # proxy index -> (rule id, rule text)
        w.gone = {}          # proxy index -> rule id cancelled once
        w.bus_rules = [[], []]      # what the bus holds per connection
        w.unanswered = [[], []]     # RemoveMatch serials not yet answered
        w.leaving = [[], []]        # proxies whose cancel is not answered
        w.calls = []
        w.serial = 4000
        return w

    def close(self, w):
        for cw in reversed(w.cws):
            cw.close()

    def enabled(self, w):
        evs = []
        only = self.params.get('only', range(len(self.PROXIES)))
        for k in only:
            if k in w.subs:
                evs.append(('cancel', k))
            else:
                evs.append(('sub', k))
                if k in w.gone:
                    evs.append(('recancel', k))
        for ci in sorted({self.PROXIES[k][0] for k in only}):
            for path in sorted({self.PROXIES[k][1] for k in only}):
                evs.append(('sig', ci, path))
            if w.unanswered[ci]:
                evs.append(('answer', ci))
        return evs

    def _reply(self, w, ci, serial):
        w.serial += 1
        w.cws[ci].deliver(R.encode_message(R.METHOD_RETURN, w.serial,
                                           {'reply_serial': serial}))

    def _bus_side(self, w, ci, msgs):
        """the bus's bookkeeping for what the client just wrote"""
        for m in msgs:
            mem = m['fields'].get('member')
            if mem == 'AddMatch':
                w.bus_rules[ci].append(m['body'][0])
                self._reply(w, ci, m['serial'])
            elif mem == 'RemoveMatch':
                if m['body'][0] in w.bus_rules[ci]:
                    w.bus_rules[ci].remove(m['body'][0])
                w.unanswered[ci].append(m['serial'])

    def apply(self, w, ev):
        viol = []
        try:
            if ev[0] == 'sub':
                k = ev[1]
                ci = self.PROXIES[k][0]
                ids = []
                w.prox[k].notifyOnSignal(
                    'Sig', lambda *a, k=k: w.calls.append(k))\
                    .addBoth(ids.append)
                m = w.cws[ci].sent()
                if len(m) != 1 or m[0]['fields'].get('member') != 'AddMatch':
                    return [('%s/proxies/subscribe-call' % PROP,
                             'notifyOnSignal wrote %r' % (m,))]
                self._bus_side(w, ci, m)
                if len(ids) != 1 or not isinstance(ids[0], int):
                    return [('%s/proxies/subscribe-result' % PROP,
                             'notifyOnSignal gave %r' % (ids,))]
                w.subs[k] = (ids[0], m[0]['body'][0])
                w.gone.pop(k, None)
            elif ev[0] == 'cancel':
                k = ev[1]
                ci = self.PROXIES[k][0]
                rid, text = w.subs.pop(k)
                w.gone[k] = rid
                w.leaving[ci].append(k)
                w.prox[k].cancelSignalNotification(rid)
                m = w.cws[ci].sent()
                if len(m) != 1 or m[0]['fields'].get('member') != \
                        'RemoveMatch' or m[0]['body'] != [text]:
                    viol.append(('%s/proxies/cancel-call' % PROP,
                                 'after %r: cancelSignalNotification of '
                                 'proxy %d wrote %r, its rule was %r'
                                 % (sorted(w.subs), k,
                                    [(x['fields'].get('member'), x['body'])
                                     for x in m], text)))
                self._bus_side(w, ci, m)
            elif ev[0] == 'recancel':
                # the application cancels a subscription it already
                # cancelled (e.g. a one-shot handler that ran twice)
                k = ev[1]
                ci = self.PROXIES[k][0]
                w.prox[k].cancelSignalNotification(w.gone.pop(k))
                self._bus_side(w, ci, w.cws[ci].sent())
            elif ev[0] == 'answer':
                ci = ev[1]
                while w.unanswered[ci]:
                    self._reply(w, ci, w.unanswered[ci].pop(0))
                del w.leaving[ci][:]
                w.cws[ci].sent()
            else:
                _, ci, path = ev
                del w.calls[:]
                msg = {'type': 4, 'fields': {'path': path,
                                             'interface': 'org.ex.S',
                                             'member': 'Sig'},
                       'body': ['v']}
                if any(ref_match(parse_rule_text(t), msg)
                       for t in w.bus_rules[ci]):
                    w.serial += 1
                    w.cws[ci].deliver(R.encode_message(
                        R.SIGNAL, w.serial, msg['fields'], 's', ['v']))
                want = sorted(k for k in w.subs
                              if self.PROXIES[k] == (ci, path))
                # a subscription whose removal the bus has not confirmed
                # yet is not "removed" yet: its callback may still run
                extra = list(w.calls)
                for k in want:
                    if k in extra:
                        extra.remove(k)
                tolerated = [k for k in w.leaving[ci]
                             if self.PROXIES[k] == (ci, path)]
                for k in list(extra):
                    if k in tolerated:
                        tolerated.remove(k)
                        extra.remove(k)
                if extra or any(k not in w.calls for k in want):
                    viol.append((
                        '%s/proxies/%s' % (
                            PROP, 'after-cancel' if set(w.calls) - set(w.subs)
                            else 'missed' if set(want) - set(w.calls)
                            else 'spurious'),
                        'subscribed proxies %r (index: connection, path = '
                        '%r; the bus holds the rules %r); a signal from %s '
                        'on connection %d invoked the callbacks of %r, '
                        'expected %r'
                        % (sorted(w.subs), self.PROXIES, w.bus_rules, path,
                           ci, sorted(w.calls), want)))
        except Exception as e:
            return [('%s/proxies/%s/raises-%s' % (PROP, ev[0],
                                                  type(e).__name__),
                     'event %r raised %r' % (ev, e))]
        return viol

    def canon(self, w):
        return None

    def nontrivial(self, hist):
        return any(e[0] in ('cancel', 'recancel') for e in hist)


def run_long_lived_router(gap, keep):
    """a long-lived router: rule A stays registered while gap-1 other rules
    come and go (`keep` of them staying registered at any time), then rule
    B is added: A and B both still run for their signals, removing either
    leaves the other"""
    from txdbus import router as RT
    viol = []
    try:
        rt = RT.MessageRouter()
        hits = []
        ida = rt.addMatch(lambda m: hits.append('A'), member='Alpha')
        kept = []
        for i in range(gap - 1):
            kept.append(rt.addMatch(lambda m: hits.append('other'),
                                    member='Other'))
            if len(kept) > keep:
                rt.delMatch(kept.pop(0))
        idb = rt.addMatch(lambda m: hits.append('B'), member='Beta')

        def route(member):
            del hits[:]
            rt.routeMessage(to_txmsg(
                {'type': 4, 'fields': {'path': '/a', 'interface': 'a.b',
                                       'member': member}, 'sig': '',
                 'body': []}))
            return list(hits)
        got = [route('Alpha'), route('Beta')]
        if got != [['A'], ['B']] or ida == idb:
            viol.append(('long-lived-router/%s' % (
                'same-id' if ida == idb else 'lost-rule'),
                'rule A (id %r) registered, %d other rules added and '
                'removed (%d registered at a time), rule B (id %r) added: '
                'signals for A and B ran %r' % (ida, gap - 1, keep, idb,
                                                got)))
            return viol
        rt.delMatch(idb)
        got = [route('Alpha'), route('Beta')]
        if got != [['A'], []]:
            viol.append(('long-lived-router/after-removal',
                         'after removing rule B (id %r; A has id %r, %d '
                         'rules in between): signals for A and B ran %r'
                         % (idb, ida, gap - 1, got)))
        for k in kept:
            rt.delMatch(k)
        rt.delMatch(ida)
        got = [route('Alpha'), route('Beta'), route('Other')]
        if got != [[], [], []]:
            viol.append(('long-lived-router/after-removing-all',
                         'every rule removed; signals ran %r' % (got,)))
    except Exception as e:
        viol.append(('long-lived-router/raises-%s' % type(e).__name__,
                     '%d rules between A and B: raised %r' % (gap - 1, e)))
    return viol


def _task_long_lived_router(gap):
    res = core.Result()
    for keep in (0, 3):
        res.count('states')
        res.count('transitions', gap * 2)
        res.count('evaluations')
        res.count('nontrivial')
        for t, w in run_long_lived_router(gap, keep):
            res.violation('%s/%s' % (PROP, t), w,
                          {'part': 'long-lived-router', 'args': [gap, keep]},
                          size=gap)
    return res


def run(ctx):
    mk = 3 if ctx.quick else 9
    ctx.rule = (
        '(D also: zero-argument signals with an explicit empty SIGNATURE '
        'field; signals written by emitSignal of an exported object on '
        'another connection) A: every rule over the keys %r with each key absent or one of two '
        'values (<= %d keys per rule: %d rules) against %d messages (4 types; '
        'interface/member hits and near misses; paths /, /a, /a/b, /a/bc, '
        '/a/b/c; destination absent/equal/other; %d bodies incl. missing, '
        'non-string and path arguments with and without trailing slash), '
        'through MessageRouter with real parsed message objects, compared '
        'with an independent matcher. B: breadth-first search over '
        'addMatch/delMatch/signal-delivery histories on a real client '
        'connection (bus replies supplied by the harness; odd-numbered '
        'callbacks raise). C: the AddMatch text written by the client parsed '
        'by an independent parser, and the same text given to the built-in '
        'bus, which must deliver broadcasts exactly as the matcher says. D: '
        'proxy notifyOnSignal / cancelSignalNotification with matching and '
        'mismatching signatures; every history (length <= 4, 5 thorough) of '
        'subscribe / cancel / cancel once more / signal / bus answers over four '
        'proxies on two connections of one process, two of them with identical rule text, against a harness that keeps the bus\'s multiset of rules. E: one argument constraint (exact string, '
        'path) at every index 0..63 against signals whose argument there '
        'matches, differs, is not a string, is missing or sits one place '
        'early - through the router, the rule text and the built-in bus. F: '
        'a long-lived router: 254..257 / 65534..65537 rules added and '
        'removed between two rules that stay'
        % (KEYS, mk, len(rules(mk)), len(messages()), len(BODIES)))
    ctx.assumptions = ['sender and arg0namespace constraints are outside the '
                       'statement and not enumerated']
    n = ctx.jobs * 2
    ctx.map(_task_pairs, [(mk, i, n) for i in range(n)])
    explore.explore(ctx, HistoryScenario, {'max_adds': 3},
                    max_depth=5 if ctx.quick else 7,
                    label='add/remove/route histories')
    explore.explore(ctx, HistoryScenario, {'max_adds': 3, 'oneshot': True},
                    max_depth=5 if ctx.quick else 6,
                    label='add/remove/route histories with one-shot '
                          'handlers (they cancel their own rule from inside '
                          'the delivery)')
    ctx.map(_task_text, [(2 if ctx.quick else 3, i, n) for i in range(n)])
    ctx.map(_task_argindex_router, [(i, n) for i in range(n)])
    ctx.map(_task_text, [('argindex', i, n) for i in range(n)])
    ctx.map(_task_proxy, [0])
    from mcx import scale
    ctx.map(_task_long_lived_router,
            scale.LADDER_SMALL[3:] + scale.LADDER_WORD
            + ([] if ctx.quick else [2 * 65536, 2 * 65536 + 1]))
    explore.explore(ctx, ProxyScenario, {'dedup': False},
                    max_depth=4 if ctx.quick else 5,
                    label='proxy subscriptions on two connections, all '
                          'histories')
    explore.explore(ctx, ProxyScenario, {'dedup': False, 'only': [0, 3]},
                    max_depth=6 if ctx.quick else 7,
                    label='two proxies with one rule text, all histories')
    ctx.bounds = {'max_keys_per_rule': mk}


def replay(data):
    if 'scenario' in data:
        return explore.replay_violation(data)
    res = core.Result()
    if data['part'] == 'long-lived-router':
        return [('%s/%s' % (PROP, t), w) for t, w in
                run_long_lived_router(*data['args'])]
    if data['part'] == 'pair':
        from txdbus import router as RT
        rt = RT.MessageRouter()
        hits = []
        rt.addMatch(lambda m: hits.append(1), **router_kwargs(data['rule']))
        rt.routeMessage(to_txmsg(data['msg']))
        want = 1 if ref_match(data['rule'], data['msg']) else 0
        if len(hits) != want:
            return [('%s/match' % PROP, 'ran %d times, expected %d'
                     % (len(hits), want))]
        return []
    if data['part'] == 'text':
        res = _task_text((9, 0, 1)) if False else core.Result()
        r = data['rule']
        res2 = core.Result()
        # re-run just this rule
        import mcx.checks.c12 as me
        saved = me.rules, me.argindex_rules
        me.rules = lambda k: [r]
        me.argindex_rules = lambda: [r]
        try:
            res2 = _task_text(('argindex' if data.get('argindex')
                               else len(r), 0, 1))
        finally:
            me.rules, me.argindex_rules = saved
        return [(s, v['what']) for s, v in res2.violations.items()]
    res = _task_proxy(0)
    return [(s, v['what']) for s, v in res.violations.items()]
