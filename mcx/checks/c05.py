"""
C05 - malformed or hostile message bytes are rejected (or decoded) in bounded
work: no loop, no unbounded recursion, no result unrelated in size to the
input.

Work is measured in interpreter line events (mcx.meter), not seconds.
"""
import itertools
import struct

from mcx import core, fakes, meter, refcodec as R
from mcx.refcodec import Var

PROP = 'C05'

_HDR = R.parse_sig('yyyyuua(yv)')


def budget(n):
    # A valid message costs about 11 line events per byte; a signature of
    # maximal nesting (255 characters) costs up to ~10**5 events by itself
    # because the bracket matcher rescans it at every level - a constant,
    # since signatures cannot be longer.  Everything beyond that is a loop.
    return 600000 + 100 * n


def raw_message(sig, body, little=True, mtype=1, fields=None, flags=0):
    """a message whose signature field / body are arbitrary (possibly
    invalid) bytes"""
    arr = [[1, Var('o', '/a')], [3, Var('s', 'M')]]
    if mtype == 4:
        arr.append([2, Var('s', 'a.b')])
    if mtype in (2, 3):
        arr = [[5, Var('u', 1)]]
        if mtype == 3:
            arr.append([4, Var('s', 'a.b')])
    if sig is not None:
        arr.append([8, Var('g', sig)])
    e = _Loose(0, little)
    for t, v in zip(_HDR, [ord('l') if little else ord('B'), mtype, flags, 1,
                           len(body), 9, arr]):
        e.put(t, v)
    hdr = bytes(e.buf)
    hdr += b'\0' * ((-len(hdr)) % 8)
    return hdr + body


class _Loose(R._Enc):
    """reference encoder that does not validate signature *content*"""

    def put(self, t, v):
        if t[0] == 'v':
            self.put(('g', ()), v.sig)
            if v.sig == 'g':
                b = v.value.encode('latin-1')
                self.buf += bytes([len(b)]) + b + b'\0'
                return
            return R._Enc.put(self, R.single_type(v.sig), v.value)
        return R._Enc.put(self, t, v)


def base_messages():
    out = []
    E = R.encode_message
    out.append(E(1, 2, {'path': '/a/b', 'member': 'Ping',
                        'interface': 'a.b', 'destination': 'c.d'}))
    out.append(E(1, 3, {'path': '/a', 'member': 'M'}, 'su', ['hello', 7]))
    out.append(E(2, 4, {'reply_serial': 3, 'destination': ':1.2'},
                 'a{sv}', [[['k', Var('s', 'v')], ['n', Var('u', 5)]]]))
    out.append(E(3, 5, {'reply_serial': 3, 'error_name': 'a.b.Err'},
                 's', ['boom']))
    out.append(E(4, 6, {'path': '/a', 'member': 'Sig', 'interface': 'a.b'},
                 'a(ys)', [[[1, 'x'], [2, 'yz']]]))
    out.append(E(1, 7, {'path': '/a', 'member': 'M'}, 'aay',
                 [[[1, 2], [], [3]]], little=False))
    out.append(E(1, 8, {'path': '/a', 'member': 'M'}, 'v',
                 [Var('(ia{sv})', [1, [['k', Var('ay', [1, 2])]]])]))
    out.append(E(4, 9, {'path': '/', 'member': 'S', 'interface': 'a.b'},
                 'ax', [[1, 2, 3]], little=False))
    out.append(E(1, 10, {'path': '/a', 'member': 'M'}, 'a{ss}as',
                 [[['a', 'b']], ['c', 'd']]))
    out.append(E(1, 11, {'path': '/a', 'member': 'M'}, 'yg(d)t',
                 [1, 'a{sv}', [0.5], 2**63]))
    out.append(E(2, 12, {'reply_serial': 9}, 'av',
                 [[Var('s', 'x'), Var('av', [Var('i', 1)])]]))
    out.append(E(1, 13, {'path': '/a', 'member': 'M', 'unix_fds': 1}, 'h',
                 [0]))
    out.append(E(1, 14, {'path': '/a', 'member': 'M', 'unix_fds': 2},
                 'ahs(yh)', [[0, 1], 'x', [7, 1]]))
    out.append(E(4, 15, {'path': '/a', 'member': 'S', 'interface': 'a.b'},
                 'a{sv}a{yd}', [[['k', Var('ah', [0])]], [[1, 0.5]]],
                 little=False))
    return out


def _leaves(v, depth=0):
    if depth > 2000:
        return 1
    if isinstance(v, (list, tuple)):
        return 1 + sum(_leaves(x, depth + 1) for x in v)
    if isinstance(v, dict):
        return 1 + sum(_leaves(k, depth + 1) + _leaves(x, depth + 1)
                       for k, x in v.items())
    if isinstance(v, (str, bytes)):
        return 1 + len(v) // 64
    return 1


def alloc_budget(n):
    # a decoded value costs at most a few dozen bytes per input byte (an
    # INT16 becomes a 28 byte int object plus an 8 byte list slot); the
    # constant covers the interpreter's own frames and the exception
    return 4000000 + 200 * n


def _check_alloc(res, raw, tag, rep, what):
    peak = meter.last_peak()
    res.setmax('max_alloc_bytes', peak)
    if peak > alloc_budget(len(raw)):
        res.violation('%s/allocation/%s' % (PROP, tag),
                      '%s had %d bytes allocated at one time while decoding '
                      'a %d byte input (%s): %s'
                      % (what, peak, len(raw), tag, raw[:80].hex()),
                      rep, size=len(raw))


def check_parse(res, raw, tag, rep):
    """parseMessage(raw) must finish within budget with a message or an
    Exception; returns the status."""
    from txdbus import message as M
    res.count('evaluations')
    res.count('transitions')
    with core.Watchdog(60):
        try:
            st, v, n = meter.metered(lambda: M.parseMessage(raw, [3, 4]),
                                     budget(len(raw)))
        except core.ExecutionTimeout:
            st, v, n = 'budget', None, -1
    res.setmax('max_lines', n)
    _check_alloc(res, raw, tag, rep, 'parseMessage')
    if st == 'budget':
        res.violation('%s/unbounded/%s' % (PROP, tag),
                      'parseMessage did not finish within %d line events on a '
                      '%d byte input (%s): %s'
                      % (budget(len(raw)), len(raw), tag, raw[:80].hex()),
                      rep, size=len(raw))
        return st
    if st == 'exc':
        if isinstance(v, (MemoryError, RecursionError)):
            res.violation('%s/%s/%s' % (PROP, 'memory' if isinstance(
                              v, MemoryError) else 'recursion', tag),
                          'parseMessage raised %s on %d bytes'
                          % (type(v).__name__, len(raw)), rep, size=len(raw))
        res.outcome(('exc', type(v).__name__))
        return st
    size = _leaves(getattr(v, 'body', None)) + _leaves(
        [getattr(v, a, None) for a in ('path', 'member', 'interface')])
    if size > len(raw) + 16:
        res.violation('%s/blowup/%s' % (PROP, tag),
                      'a %d byte input decoded to %d values'
                      % (len(raw), size), rep, size=len(raw))
    res.outcome(('ok', type(v).__name__))
    return st


def check_protocol(res, raw, tag, rep):
    """the same bytes through BasicDBusProtocol.dataReceived"""
    from mcx.checks import c04
    res.count('evaluations')
    res.count('transitions')
    # a real server-side protocol brought into binary mode by a real
    # handshake (no private attribute is touched)
    p, _t = c04.make_server()
    p.dataReceived(c04.SERVER_HS)
    with core.Watchdog(60):
        try:
            st, v, n = meter.metered(lambda: p.dataReceived(raw),
                                     budget(len(raw)))
        except core.ExecutionTimeout:
            st, v, n = 'budget', None, -1
    _check_alloc(res, raw, tag, rep, 'dataReceived')
    if st == 'budget':
        res.violation('%s/unbounded-protocol/%s' % (PROP, tag),
                      'dataReceived did not finish within %d line events on '
                      '%d bytes (%s)' % (budget(len(raw)), len(raw), tag),
                      rep, size=len(raw))
    elif st == 'exc' and isinstance(v, (MemoryError, RecursionError)):
        res.violation('%s/%s-protocol/%s' % (PROP, 'memory' if isinstance(
                          v, MemoryError) else 'recursion', tag),
                      'dataReceived raised %s' % type(v).__name__, rep,
                      size=len(raw))
    res.outcome(('proto', st, type(v).__name__ if st == 'exc'
                 else len(p.got)))
    if st != 'ok' or not p.got or len(raw) > 4000:
        return
    # the same bytes once more with a handler that re-enters the protocol
    # (an empty read, as a handler talking to its peer over an in-memory
    # transport causes): every frame is still decoded once
    res.count('transitions')
    p2, _t2 = c04.make_server()
    p2.dataReceived(c04.SERVER_HS)
    p2.hook = lambda proto: proto.dataReceived(b'')
    with core.Watchdog(60):
        try:
            st2, v2, n2 = meter.metered(lambda: p2.dataReceived(raw),
                                        budget(len(raw)))
        except core.ExecutionTimeout:
            st2, v2, n2 = 'budget', None, -1
    if st2 == 'budget' or (st2 == 'exc' and isinstance(
            v2, (MemoryError, RecursionError))) or \
            (st2 == 'ok' and len(p2.got) != len(p.got)):
        res.violation('%s/reentrant-protocol/%s' % (PROP, tag),
                      'with a handler that re-enters dataReceived, %d bytes '
                      'holding %d message(s) ended as %s with %d deliveries '
                      '(%s)' % (len(raw), len(p.got), st2, len(p2.got),
                                type(v2).__name__ if st2 == 'exc' else n2),
                      rep, size=len(raw))


SUBS = [0x00, 0x01, 0x7f, 0x80, 0xff] + [ord(c) for c in 'a(){}vysg']
LENS = [0, 1, 2**31, 2**32 - 1, 2**26 + 1, 0x01000000]


def _mutations(raw, thorough):
    """(tag, mutated bytes)"""
    n = len(raw)
    for k in range(n):
        yield 'truncate', raw[:k]
    for pos in range(n):
        vals = range(256) if (thorough and pos < 80) else SUBS + [raw[pos] ^ 1]
        for b in vals:
            if b != raw[pos]:
                yield 'byte', raw[:pos] + bytes([b]) + raw[pos + 1:]
    # every aligned 4-byte word replaced by lying lengths, both byte orders
    for pos in range(0, n - 3, 4):
        old = raw[pos:pos + 4]
        cur_le = struct.unpack('<I', old)[0]
        for val in LENS + [cur_le + 1, max(cur_le - 1, 0), n, n * 2]:
            for fmt in ('<I', '>I'):
                new = struct.pack(fmt, val & 0xffffffff)
                if new != old:
                    yield 'word', raw[:pos] + new + raw[pos + 4:]
    yield 'extended', raw + b'\0' * 64
    yield 'extended', raw + raw


def _task_mut(task):
    meter.trace_allocations()
    idx, thorough = task
    res = core.Result()
    raw = base_messages()[idx]
    n = 0
    for tag, mut in _mutations(raw, thorough):
        rep = {'part': 'mut', 'raw': mut.hex()}
        check_parse(res, mut, tag, rep)
        if n % 7 == 0 or tag != 'byte':
            check_protocol(res, mut, tag, rep)
        n += 1
    if thorough:
        # pairs: (a signature byte, a length-field byte)
        sigpos = [i for i in range(16, len(raw)) if raw[i:i + 1] in
                  (b'a', b'(', b'{', b'v', b's', b'y')][:12]
        for sp in sigpos:
            for sb in b'a(){}vy':
                for lp in range(4, len(raw), 4):
                    for lv in (0, 1, 0xff, 0x7f):
                        m = bytearray(raw)
                        m[sp] = sb
                        m[lp] = lv
                        check_parse(res, bytes(m), 'pair',
                                    {'part': 'mut', 'raw': bytes(m).hex()})
                        n += 1
    res.count('states', n)
    res.count('nontrivial', n)
    res.sample({'base_message': raw.hex()[:160], 'mutations': n})
    return res


SIG_ALPHABET = 'a(){}ysvxh'


def _bodies():
    return [('zero', b'\0' * 64), ('ff', b'\xff' * 64),
            ('len1', (b'\x01\0\0\0' + b'\0' * 4) * 8),
            ('len8', (b'\x08\0\0\0' + b'\0' * 4) * 8),
            ('sig', b'\x01y\0' * 20),
            ('big', b'\xff\xff\xff\x7f' + b'\0' * 60)]


def _task_sigs(task):
    meter.trace_allocations()
    first, maxlen = task
    res = core.Result()
    n = 0
    bodies = _bodies()
    for rest_len in range(0, maxlen):
        for rest in itertools.product(SIG_ALPHABET, repeat=rest_len):
            sig = first + ''.join(rest)
            for bname, body in bodies:
                # as the message's body signature
                raw = raw_message(sig, body)
                check_parse(res, raw, 'sig:' + _sigclass(sig),
                            {'part': 'sig', 'sig': sig, 'body': bname})
                n += 1
            # as the signature inside a variant
            body = bytes([len(sig)]) + sig.encode() + b'\0' + b'\x01' * 61
            raw = raw_message('v', body, little=(len(sig) % 2 == 0))
            check_parse(res, raw, 'vsig:' + _sigclass(sig),
                        {'part': 'vsig', 'sig': sig})
            n += 1
            if R.is_valid_sig(sig):
                res.count('valid_signatures')
    res.count('states', n)
    res.count('nontrivial', n)
    res.sample({'hostile_signature': first + SIG_ALPHABET[0] * (maxlen - 1)})
    return res


def _sigclass(sig):
    """coarse class of a hostile signature, for violation signatures"""
    if '()' in sig or '{}' in sig:
        return 'empty-container'
    try:
        R.parse_sig(sig)
        return 'valid'
    except R.RefError as e:
        return str(e).split()[0]


def _family_list(thorough):
    fam = []
    # zero-size elements at every nesting shape
    for s in ('a()', 'a{}', 'a(())', 'a(()())', 'a{()()}', 'aa()', 'a(a())',
              'a((()))', '(a())', 'a(){', 'va()', 'a()a()', 'a{y()}',
              'a(' + '(' * 20 + ')' * 20 + ')'):
        for body in (b'\x08\0\0\0' + b'\0' * 60, b'\xff\xff\xff\xff' * 16,
                     b'\x01\0\0\0' * 16, b'\0' * 64):
            fam.append(('zero-size:' + s, raw_message(s, body)))
            fam.append(('zero-size:' + s, raw_message(s, body, little=False)))
    # maximal / excessive nesting
    for depth in (32, 64, 127, 200, 254):
        fam.append(('deep-a', raw_message('a' * depth + 'y', b'\0' * 64)))
        fam.append(('deep-a', raw_message('a' * depth + 'y',
                                          b'\x04\0\0\0' * 300)))
        d2 = min(depth, 127)
        fam.append(('deep-struct', raw_message('(' * d2 + 'y' + ')' * d2,
                                               b'\0' * 64)))
        fam.append(('deep-unterminated', raw_message('(' * depth, b'\0' * 8)))
        fam.append(('deep-dict', raw_message('a{s' * (depth // 4) + 'v'
                                             + '}' * (depth // 4),
                                             b'\0' * 64)))
        fam.append(('deep-variant', raw_message(
            'v', (b'\x01v\0' * depth) + b'\x01y\0\x07')))
    # many sibling containers at one level (legal signatures): iterating
    # the signature must stay polynomial in its length
    for unit in ('ai', 'ay', 'a{sv}', '(y)', 'aay', 'a(ii)', 'v', 'a{s(ai)}'):
        for n in (8, 14, 22, 40, 127):
            sig = (unit * n)[:254]
            if not R.is_valid_sig(sig):
                sig = sig[:len(sig) - len(sig) % len(unit)]
            fam.append(('siblings:' + unit, raw_message(sig, b'\0' * 1024)))
            fam.append(('siblings:' + unit,
                        raw_message('(' + sig[:250] + ')', b'\0' * 1024,
                                    little=False)))
        fam.append(('siblings-in-variant:' + unit, raw_message(
            'v', bytes([len(unit) * 20]) + (unit * 20).encode() + b'\0'
            + b'\0' * 512)))
    # self-referential lengths: string length words with the top bit set
    # (negative if read as signed) chosen so that a decoder that steps
    # backwards lands on earlier words and re-decodes them as array lengths
    def back_reference_body(m, little=True):
        e = '<' if little else '>'
        A = 4 + 4 * m
        S = (A + 4 + 7) & ~7
        first, second = [], b''
        for i in range(m):
            O = S + 8 * i
            H = 4 + 4 * i
            first.append(O + 8 - H - 4)
            second += struct.pack(e + 'I', (H - O - 5) & 0xFFFFFFFF) \
                + b'\0\0\0\0'
        body = struct.pack(e + 'I', 4 * m) + b''.join(
            struct.pack(e + 'I', w) for w in first)
        body += struct.pack(e + 'I', 8 * m)
        body += b'\0' * (S - len(body))
        return body + second
    for m in (8, 50, 400):
        for sig in ('aua(sau)', 'aua(oau)', 'aua(say)', 'aua{sau}'):
            for little in (True, False):
                fam.append(('back-reference:' + sig, raw_message(
                    sig, back_reference_body(m, little), little=little)))
    for neg in (2**32 - 1, 2**32 - 5, 2**32 - 8, 2**32 - 13, 2**31,
                2**31 + 9):
        for sig, tail in (('ss', b'\x01\0\0\0a\0'), ('as', b''),
                          ('a(su)', b''), ('sas', b'\x08\0\0\0' * 4),
                          ('a{sv}', b'')):
            body = struct.pack('<I', 64) if sig[0] == 'a' else b''
            if sig.startswith('a(') or sig.startswith('a{'):
                body += b'\0\0\0\0'
            body += (struct.pack('<I', neg) + b'abcd\0\0\0\0') * 8 + tail
            fam.append(('negative-length:' + sig, raw_message(sig, body)))
    # lying lengths on large inputs: work must stay proportional
    for size in ((20000,) if not thorough else (20000, 200000)):
        fam.append(('big-ay', raw_message('ay', struct.pack('<I', size)
                                          + b'\x01' * size)))
        fam.append(('big-ay-lie', raw_message('ay', struct.pack(
            '<I', 2**32 - 1) + b'\x01' * size)))
        fam.append(('big-as-lie', raw_message('as', struct.pack(
            '<I', size) + (b'\x01\0\0\0a\0\0\0' * (size // 8)))))
        fam.append(('big-av', raw_message('av', struct.pack('<I', size)
                                          + b'\x01y\0\x05' * (size // 4))))
        fam.append(('big-a(y)-lie', raw_message('a(y)', struct.pack(
            '<I', 2**31) + b'\0' * 4 + b'\x01' * size)))
        # every element type whose decoder might swallow a read past the
        # end: the loop must stop where the data stops
        for et, unit in (('h', b'\0\0\0\0'), ('b', b'\1\0\0\0'),
                         ('d', b'\0' * 8), ('(h)', b'\0' * 8),
                         ('g', b'\x01y\0'), ('o', b'\x01\0\0\0/\0\0\0'),
                         ('v', b'\x01h\0\0\0\0\0\0')):
            for claim in (size * 50, 2**32 - 4, 2**31):
                fam.append(('lying-array:a' + et, raw_message(
                    'a' + et, struct.pack('<I', claim) + b'\0' * 4
                    + unit * 8)))
                fam.append(('lying-array:a' + et, raw_message(
                    'a' + et, struct.pack('>I', claim) + b'\0' * 4
                    + unit * 8, little=False)))
        fam.append(('big-strings', raw_message(
            's' * 200, (b'\xff\xff\xff\x7f' + b'a' * 60) * (size // 64))))
    # header fields repeated many times (legal on the wire: the field array
    # is just an array) in front of a body of comparable size
    for m in (100, 800):
        for name, fn in scalable_families():
            if name.startswith('repeat'):
                fam.append((name, fn(m)))
    return fam


def _task_families(thorough):
    meter.trace_allocations()
    res = core.Result()
    fam = _family_list(thorough)
    for tag, raw in fam:
        rep = {'part': 'mut', 'raw': raw.hex() if len(raw) < 4000 else
               None, 'family': tag}
        check_parse(res, raw, tag, rep)
        check_protocol(res, raw, tag, rep)
        _check_copy(res, raw, tag, rep)
    res.count('states', len(fam))
    res.count('nontrivial', len(fam))
    return res


def _good_messages():
    """what other peers send while a hostile one is at work: the base
    messages and nesting up to what the specification allows"""
    E = R.encode_message
    out = list(base_messages())
    v = Var('y', 7)
    for _ in range(40):
        v = Var('v', v)
    out.append(E(1, 20, {'path': '/a', 'member': 'M'}, 'v', [v]))
    sig = 'a' * 31 + '(' * 31 + 'y' + ')' * 31
    val = 5
    for _ in range(31):
        val = [val]
    for _ in range(31):
        val = [val]
    out.append(E(1, 21, {'path': '/a', 'member': 'M'}, sig, [val],
                 little=False))
    v = Var('(y)', [1])
    for i in range(20):
        v = Var('a{sv}', [['k', v]]) if i % 2 else Var('(v)', [v])
    out.append(E(4, 22, {'path': '/a', 'member': 'S', 'interface': 'a.b'},
                 'v', [v]))
    return out


def _bounded(fn, n):
    """fn() under the line budget for an n byte input; -> (status, value):
    a run-away (reported by check_parse for the same input) must not hold
    up the tasks that only use the parser on the way"""
    st, v, _n = meter.metered(fn, budget(n))
    return st, v


def _summary(raw):
    from txdbus import message as M
    st, m = _bounded(lambda: M.parseMessage(raw, [3, 4]), len(raw))
    if st == 'ok':
        return ('ok', type(m).__name__, m.serial, repr(m.body),
                getattr(m, 'member', None), getattr(m, 'path', None))
    return ('exc', type(m).__name__ if st == 'exc' else 'budget')


def _task_aftermath(task):
    """rejecting a hostile message costs that peer its connection and
    nothing else: after the same hostile bytes were presented 70 times (70
    hostile connections), the messages of well-behaved peers decode as they
    did in the fresh process"""
    from txdbus import message as M
    part, nparts = task
    meter.trace_allocations()
    res = core.Result()
    goods = _good_messages()
    fresh = [_summary(g) for g in goods]
    for i, f in enumerate(fresh):
        if f[0] != 'ok':
            res.violation('%s/aftermath/good-message-refused/%d' % (PROP, i),
                          'a valid message (nesting within the limits of the '
                          'specification) is refused in a fresh process: %r'
                          % (f,), {'part': 'aftermath'}, size=1)
    seen = set()
    fam = []
    for tag, raw in _family_list(False):
        if raw in seen or len(raw) > 6000:
            continue
        seen.add(raw)
        fam.append((tag, raw))
    for tag, raw in fam[part::nparts]:
        res.count('states')
        res.count('nontrivial')
        import gc
        import tracemalloc

        def present(n):
            for _ in range(n):
                res.count('transitions')
                if _bounded(lambda: M.parseMessage(raw, [3, 4]),
                            len(raw))[0] == 'budget':
                    return False
            return True
        if not present(20):
            continue        # unbounded on this input: check_parse says so
        gc.collect()
        held0 = tracemalloc.get_traced_memory()[0]
        present(100)
        gc.collect()
        held1 = tracemalloc.get_traced_memory()[0]
        if held1 - held0 > 4096:
            res.violation('%s/aftermath/retained/%s' % (PROP,
                                                       tag.split(':')[0]),
                          'after 20 presentations of a hostile message '
                          '(family %s, %d bytes) the process holds %d bytes; '
                          'after 100 more, %d: every rejection leaves about '
                          '%d bytes behind' % (tag, len(raw), held0, held1,
                                               (held1 - held0) // 100),
                          {'part': 'aftermath'}, size=len(raw))
            break
        # through connections as well
        from mcx.checks import c04
        for k in range(3):
            proto, _t = c04.make_server()
            proto.dataReceived(c04.SERVER_HS)
            _bounded(lambda: proto.dataReceived(raw), len(raw))
        # descriptors the hostile peer had sent along stay its own: another
        # connection that receives one descriptor and a message naming it
        # decodes its own
        try:
            hp, _t = c04.make_server()
            hp.dataReceived(c04.SERVER_HS)
            hp.fileDescriptorReceived(101)
            hp.fileDescriptorReceived(102)
            _bounded(lambda: hp.dataReceived(raw), len(raw))
            gp, _t = c04.make_server()
            gp.dataReceived(c04.SERVER_HS)
            gp.fileDescriptorReceived(7)
            gp.dataReceived(R.encode_message(
                1, 30, {'path': '/a', 'member': 'M', 'unix_fds': 1}, 'h',
                [0], fds=[]))
            bodies = [m.body for m in gp.got]
        except Exception as e:
            bodies = 'raised %r' % (e,)
        if bodies != [[7]]:
            res.violation('%s/aftermath/descriptors/%s'
                          % (PROP, tag.split(':')[0]),
                          'a peer sent two descriptors and a hostile message '
                          '(family %s) and was dropped; another connection '
                          'then received descriptor 7 and a message naming '
                          'its first descriptor: delivered %r'
                          % (tag, bodies), {'part': 'aftermath'},
                          size=len(raw))
            break
        res.count('evaluations')
        after = [_summary(g) for g in goods]
        if after != fresh:
            bad = [i for i in range(len(goods)) if after[i] != fresh[i]]
            res.violation('%s/aftermath/%s' % (PROP, tag.split(':')[0]),
                          'after 70 presentations of a hostile message '
                          '(family %s, %d bytes) valid messages %r no '
                          'longer decode as before: %r instead of %r'
                          % (tag, len(raw), bad, after[bad[0]],
                             fresh[bad[0]]), {'part': 'aftermath'},
                          size=len(raw))
            break
    return res


def message_with_fields(arr, sig, body, little=True, mtype=1):
    """a message whose header-field array is exactly arr (+ the signature)"""
    arr = list(arr)
    if sig is not None:
        arr.append([8, Var('g', sig)])
    e = _Loose(0, little)
    for t, v in zip(_HDR, [ord('l') if little else ord('B'), mtype, 0, 1,
                           len(body), 9, arr]):
        e.put(t, v)
    hdr = bytes(e.buf)
    hdr += b'\0' * ((-len(hdr)) % 8)
    return hdr + body


def scalable_families():
    """(name, m -> raw): inputs whose length grows linearly with m; decoding
    work has to grow linearly too"""
    base = [[1, Var('o', '/a')], [3, Var('s', 'M')]]
    out = []

    def body_of(sig, m, little=True):
        vals = {'au': [list(range(m))], 'as': [['ab'] * m],
                'a(yv)': [[[i % 256, Var('u', i)] for i in range(m)]],
                'a{sv}': [[['k%d' % i, Var('s', 'v')] for i in range(m)]],
                'aau': [[[i, i] for i in range(m)]],
                'av': [[Var('au', [i]) for i in range(m)]],
                'a(sau)': [[['s', [i]] for i in range(m)]],
                # many small / empty arrays (alignment padding only)
                'aax': [[[] for i in range(m)]],
                'a{sa{sv}}': [[['k%d' % i, [['p', Var('y', 1)]] if i % 2
                               else []] for i in range(m)]]}[sig]
        return R.encode(sig, vals, little=little)

    # repeated fields: every header-field code (and an unknown one) m times,
    # in front of a body with m elements
    for code, var in ((8, Var('g', 'au')), (1, Var('o', '/a/b')),
                      (2, Var('s', 'a.b')), (3, Var('s', 'Mem')),
                      (6, Var('s', 'a.b')), (7, Var('s', ':1.5')),
                      (9, Var('u', 0)), (5, Var('u', 7)),
                      (20, Var('s', 'zz')), (21, Var('au', [1, 2])),
                      (8, Var('g', 'a(sau)'))):
        def fn(m, code=code, var=var):
            sig = var.value if code == 8 else 'au'
            return message_with_fields(base + [[code, var]] * m, None
                                       if code == 8 else sig,
                                       body_of(sig, m))
        out.append(('repeat-field:%d:%s' % (code, var.sig), fn))
    for sig in ('au', 'as', 'a(yv)', 'a{sv}', 'aau', 'av', 'a(sau)', 'aax',
                'a{sa{sv}}'):
        out.append(('grow:' + sig,
                    lambda m, sig=sig: message_with_fields(
                        base, sig, body_of(sig, m))))
        out.append(('grow-be:' + sig,
                    lambda m, sig=sig: message_with_fields(
                        base, sig, body_of(sig, m, False), little=False)))
    return out


def _lines_of(raw):
    from txdbus import message as M
    with core.Watchdog(120):
        try:
            st, v, n = meter.metered(lambda: M.parseMessage(raw, [3, 4]),
                                     200 * budget(len(raw)))
        except core.ExecutionTimeout:
            st, v, n = 'budget', None, 200 * budget(len(raw))
    return st, n


def copy_budget(n):
    return 4 * n + 4096


def _copied(raw):
    """bytes sliced out of the input (and out of slices of it) while it is
    parsed; None when the parse does not come back"""
    from txdbus import message as M
    cb = meter.CountingBytes(raw)
    if _bounded(lambda: M.parseMessage(cb, [3, 4]), len(raw))[0] == 'budget':
        return None
    return cb.copied


def _check_copy(res, raw, tag, rep):
    c = _copied(raw)
    if c is None or c > copy_budget(len(raw)):
        res.violation('%s/copying/%s' % (PROP, tag),
                      'parseMessage sliced %s bytes out of a %d byte input '
                      '(%s); budget %d' % (c, len(raw), tag,
                                           copy_budget(len(raw))), rep,
                      size=len(raw))
    res.setmax('max_copied_per_byte_x100',
               int(100 * (c or 0) / max(len(raw), 1)))


def _task_scaling(task):
    """work at size 4m against work at size m: a + b*m satisfies
    w(4m) <= 4*w(m); anything with a quadratic term that matters does not"""
    idx, sizes = task
    name, fn = scalable_families()[idx]
    res = core.Result()
    res.count('states', len(sizes))
    for m in sizes:
        res.count('evaluations')
        res.count('transitions', 2)
        res.count('nontrivial')
        raw1, raw4 = fn(m), fn(4 * m)
        st1, n1 = _lines_of(raw1)
        st4, n4 = _lines_of(raw4)
        res.setmax('max_lines', n4)
        res.outcome((name.split(':')[0], st1, st4))
        c1, c4 = _copied(raw1), _copied(raw4)
        if c1 is None or c4 is None or c4 > 5 * c1 + 5000 or \
                c4 > copy_budget(len(raw4)):
            res.violation('%s/superlinear-copying/%s' % (PROP, name),
                          'family %s: %s bytes sliced out of a %d byte input '
                          '(m=%d) but %s out of %d bytes (m=%d)'
                          % (name, c1, len(raw1), m, c4, len(raw4), 4 * m),
                          {'part': 'scaling', 'idx': idx, 'm': m},
                          size=len(raw1))
        if n4 > 5 * n1 + 5000:
            res.violation('%s/superlinear/%s' % (PROP, name),
                          'family %s: %d line events for %d bytes (m=%d) but '
                          '%d for %d bytes (m=%d): more than linear growth'
                          % (name, n1, len(raw1), m, n4, len(raw4), 4 * m),
                          {'part': 'scaling', 'idx': idx, 'm': m},
                          size=len(raw1))
    return res


def _task_bus_victim(task):
    """hostile bytes cost the peer that sent them at most its own
    connection: a real client of the library sits on the built-in bus with a
    match rule; another peer sends mutated messages that the bus may hand
    on; after each of them a well-behaved peer sends a signal, which the
    client must still receive"""
    part, nparts = task
    from twisted.internet.protocol import Factory
    from txdbus import bus as B
    from mcx.checks import c11
    res = core.Result()
    s = c11.System(dict(n=1, exporters={}, calls=[]), 'explicit')
    try:
        victim = s.cprotos[0]
        seen = []
        victim.addMatch(lambda m: seen.append(m.body), mtype='signal',
                        interface='a.b')
        s.pump()
        bf = Factory()
        bf.protocol = B.BusProtocol
        bf.bus = s.bus

        def raw_peer():
            rp = bf.buildProtocol(None)
            rt = fakes.FakeTransport()
            rp.makeConnection(rt)
            rp.dataReceived(b'\0AUTH ANONYMOUS\r\nBEGIN\r\n')
            rp.dataReceived(R.encode_message(
                1, 1, {'path': '/org/freedesktop/DBus', 'member': 'Hello',
                       'interface': 'org.freedesktop.DBus',
                       'destination': 'org.freedesktop.DBus'}))
            return rp, rt
        good, _gt = raw_peer()
        cases = []
        for le in (True, False):
            for kind, f in (('signal', {'path': '/s', 'member': 'Sig',
                                        'interface': 'a.b'}),
                            ('call', {'path': '/o', 'member': 'M',
                                      'destination': victim.busName})):
                base = R.encode_message(4 if kind == 'signal' else 1, 5, f,
                                        'su', ['payload', 7], little=le)
                for b in range(256):
                    cases.append(('%s/byte0' % kind,
                                  bytes([b]) + base[1:]))
                for pos in range(1, 16):
                    for b in SUBS:
                        cases.append(('%s/byte%d' % (kind, pos),
                                      base[:pos] + bytes([b])
                                      + base[pos + 1:]))
        # well-formed messages whose names a bus has reason to look at: one
        # long element followed by a character no name may hold, doubled
        # separators, many short elements - in every name-carrying field
        for n in (30, 60, 200):
            long_ = 'a' * n
            for field, vals in (
                    ('path', ['/' + long_ + '!', '/' + long_ + '//x',
                              '/' + '/'.join('ab' for _ in range(n)) + '!',
                              '/' + long_ + '/']),
                    ('interface', [long_ + '.' + long_ + '!',
                                   '.'.join('ab' for _ in range(n)) + '-',
                                   long_ + '..' + long_]),
                    ('member', [long_ + '!', long_ + '.x']),
                    ('destination', [long_ + '.' + long_ + '!',
                                     ':1.' + long_ + '!',
                                     '.'.join('a1' for _ in range(n))
                                     + '..']),
                    ('sender', [long_ + '.' + long_ + '!'])):
                for v in vals:
                    # (the reference encoder refuses invalid names: encode a
                    # valid stand-in of the same length, then put the
                    # hostile characters into the bytes)
                    stand_in = {'path': '/' + 'q' * (len(v) - 1),
                                'member': 'q' * len(v)}.get(
                        field, ('q' * (len(v) // 2) + '.'
                                + 'q' * (len(v) - len(v) // 2 - 1)))
                    for mt, f in ((4, {'path': '/s', 'member': 'Sig',
                                       'interface': 'a.b'}),
                                  (1, {'path': '/o', 'member': 'M',
                                       'destination': victim.busName})):
                        f = dict(f)
                        f[field] = stand_in
                        raw = R.encode_message(mt, 5, f, 'u', [1])
                        if raw.count(stand_in.encode()) != 1:
                            raise core.HarnessError('stand-in not unique')
                        cases.append(('name/%s/%d' % (field, n), raw.replace(
                            stand_in.encode(), v.encode(), 1)))
            ename = long_ + '.' + long_ + '!'
            stand_in = 'q' * n + '.' + 'q' * (n + 1)
            raw = R.encode_message(
                3, 7, {'reply_serial': 1, 'destination': victim.busName,
                       'error_name': stand_in})
            cases.append(('name/error_name/%d' % n, raw.replace(
                stand_in.encode(), ename.encode(), 1)))
        hostile = None
        k = 0
        for ci, (tag, raw) in enumerate(cases):
            if ci % nparts != part:
                continue
            res.count('states')
            res.count('evaluations')
            res.count('transitions', 2)
            res.count('nontrivial')
            # (a fresh sender every time: what an earlier mutation left in
            # its receive buffer must not swallow this one)
            if hostile is not None:
                hostile[0].connectionLost(fakes.lost_reason())
            hostile = raw_peer()
            if tag.startswith('name/'):
                # tried in a child process first: a pattern matcher that
                # runs away inside C code cannot be interrupted from within
                # the process, only be abandoned from outside
                import os
                import time
                pid = os.fork()
                if pid == 0:
                    try:
                        hostile[0].dataReceived(raw)
                    except BaseException:
                        pass
                    os._exit(0)
                t0 = time.time()
                done = False
                while time.time() - t0 < 30:
                    if os.waitpid(pid, os.WNOHANG)[0]:
                        done = True
                        break
                    time.sleep(0.01)
                if not done:
                    os.kill(pid, 9)
                    os.waitpid(pid, 0)
                    res.violation('%s/bus-victim/stalled/%s' % (PROP, tag),
                                  'the bus did not come back within 30 s '
                                  'from a %d byte message (%s): %s...'
                                  % (len(raw), tag, raw[:64].hex()),
                                  {'part': 'victim'}, size=len(raw))
                    break
            try:
                hostile[0].dataReceived(raw)
            except Exception:
                hostile[1].disconnecting = True     # its own connection
            k += 1
            del seen[:]
            try:
                good.dataReceived(R.encode_message(
                    4, 100 + k, {'path': '/s', 'member': 'Ok',
                                 'interface': 'a.b'}, 'u', [k]))
                s.pump()
                ok = [k] in seen
                why = 'received %r' % (seen,)
            except Exception as e:
                ok, why = False, 'raised %r' % (e,)
            if not ok:
                res.violation('%s/bus-victim/%s' % (PROP, tag),
                              'after another peer had sent %s to the bus, a '
                              'client of the library on the same bus no '
                              'longer receives the signals its rule matches '
                              '(%s)' % (raw[:24].hex(), why),
                              {'part': 'victim'}, size=len(raw))
                break
    finally:
        s.close()
    return res


def run(ctx):
    L = 4 if ctx.quick else 6
    ctx.rule = (
        'work meter = interpreter line events, budget 600000 + 100*len; '
        'allocation meter = tracemalloc peak during the call, budget 4 MB + '
        '200*len; scaling: 29 families measured at m and 4m (m = 50, 200%s), '
        'work(4m) <= 5*work(m)+5000; copy meter = bytes sliced out of the '
        'input and out of slices of it, budget 4*len + 4096, same scaling '
        'rule. '
        'For each of %d base messages (all four types, both byte orders, all '
        'container kinds): every truncation; every position x %s (all 256 '
        'values in the first 80 bytes when thorough); every aligned 32-bit '
        'word replaced by lying lengths in both byte orders; (thorough) '
        'pairs (signature byte, length byte). Every string of length <= %d '
        'over %r as body signature against %d hostile bodies and as the '
        'signature inside a variant. Families: zero-size array elements at '
        'every nesting shape, nesting depth 32..254, unterminated '
        'containers, lying lengths on 20 kB%s inputs. The same bytes go '
        'through BasicDBusProtocol.dataReceived. Aftermath: each family '
        'presented 120 times (what the process holds after 20 and after 120 '
        'presentations must not differ by more than 4 KiB), then valid messages (40 nested variants, 31 '
        'arrays of 31 structs, the base messages) decode as in the fresh '
        'process. state = distinct input; '
        'transition = one parse/deliver call'
        % ('' if ctx.quick else ', 800, 2000',
           len(base_messages()), '{00,01,7f,80,ff,low-bit flip,a(){}vysg}',
           L, SIG_ALPHABET, len(_bodies()),
           '' if ctx.quick else ' and 200 kB'))
    ctx.bounds = {'copy_budget': '4*len + 4096 bytes sliced',
                  'hostile_signature_max_len': L,
                  'budget': '600000 + 100*len line events',
                  'allocation_budget': '4000000 + 200*len bytes'}
    ctx.assumptions = [
        'an Exception subclass (other than MemoryError) escaping the parser '
        'costs the peer only its connection (Twisted drops the connection)',
        'the quadratic cost of the bracket matcher in the signature length '
        'is bounded by the 255 byte signature limit and is inside the budget']
    ctx.map(_task_mut, [(i, not ctx.quick)
                        for i in range(len(base_messages()))])
    ctx.map(_task_sigs, [(c, L) for c in SIG_ALPHABET])
    ctx.map(_task_families, [not ctx.quick])
    ctx.map(_task_bus_victim, [(i, 4) for i in range(4)])
    ctx.map(_task_aftermath, [(i, 16) for i in range(16)])
    sizes = (50, 200) if ctx.quick else (50, 200, 800, 2000)
    ctx.map(_task_scaling, [(i, sizes)
                            for i in range(len(scalable_families()))])


def replay(data):
    res = core.Result()
    if data['part'] == 'mut':
        if data.get('raw') is None:
            res = _task_families(False)
        else:
            raw = bytes.fromhex(data['raw'])
            check_parse(res, raw, 'replay', data)
            check_protocol(res, raw, 'replay', data)
    elif data['part'] == 'aftermath':
        for i in range(16):
            res.merge(_task_aftermath((i, 16)))
    elif data['part'] == 'victim':
        for i in range(4):
            res.merge(_task_bus_victim((i, 4)))
    elif data['part'] == 'scaling':
        res = _task_scaling((data['idx'], (data['m'],)))
    elif data['part'] == 'sig':
        body = dict(_bodies())[data['body']]
        check_parse(res, raw_message(data['sig'], body), 'replay', data)
    else:
        sig = data['sig']
        body = bytes([len(sig)]) + sig.encode() + b'\0' + b'\x01' * 61
        check_parse(res, raw_message('v', body,
                                     little=(len(sig) % 2 == 0)),
                    'replay', data)
    return [(s, v['what']) for s, v in res.violations.items()]
