"""
C17 - remote property access honours declared type and access mode; change
notification follows the declaration.

Explicit-state search over local assignments and remote Set calls on two
exported objects (a base class and a derived class that both bind properties
to one interface; one property name declared differently on two interfaces);
after every step the whole property table of the touched object is read back
through Get / GetAll with right, empty, other-existing and unknown interface
names.
"""
from mcx import core, explore, fakes, refcodec as R
from mcx.refcodec import Var

PROP = 'C17'
CALLER = ':1.70'
PA, PB, PC = 'org.ex.PA', 'org.ex.PB', 'org.ex.PC'

# (interface, name): (signature, access, emits)
DECL = {
    (PA, 'Title'): ('s', 'read', 'true'),
    (PA, 'Level'): ('i', 'readwrite', 'true'),
    (PA, 'Flag'): ('b', 'readwrite', 'false'),
    (PA, 'Blob'): ('ay', 'read', 'invalidates'),
    (PA, 'Secret'): ('s', 'write', 'true'),
    (PA, 'Count'): ('u', 'readwrite', 'true'),
    (PA, 'Shared'): ('s', 'readwrite', 'true'),
    (PA, 'Tags'): ('as', 'readwrite', 'true'),      # bound by Derived only
    (PB, 'Shared'): ('u', 'read', 'false'),
    (PB, 'Path'): ('o', 'readwrite', 'false'),
    (PB, 'Ratio'): ('d', 'readwrite', 'true'),
    (PC, 'Extra'): ('s', 'readwrite', 'true'),      # Derived only
}
# attribute names on the classes
ATTR = {
    (PA, 'Title'): 'title', (PA, 'Level'): 'level', (PA, 'Flag'): 'flag',
    (PA, 'Blob'): 'blob', (PA, 'Secret'): 'secret', (PA, 'Count'): 'count',
    (PA, 'Shared'): 'shared_a', (PB, 'Shared'): 'shared_b',
    (PB, 'Path'): 'path', (PB, 'Ratio'): 'ratio', (PA, 'Tags'): 'tags',
    (PC, 'Extra'): 'extra',
}
VALUES = {
    's': ['one', 'zw\xe9i-\u65e5'], 'i': [-5, 7], 'b': [True, False],
    'ay': [[1, 2], []], 'u': [3, 4000000000], 'as': [['a'], ['b\xe9', 'c']],
    'o': ['/p', '/q/r'], 'd': [0.5, -2.0],
}
BASE_KEYS = [k for k in DECL if k not in ((PA, 'Tags'), (PC, 'Extra'))]
DERIVED_KEYS = list(DECL)


def make_family():
    from txdbus import objects as O, interface as I

    def prop(key):
        sig, access, emits = DECL[key]
        return I.Property(key[1], sig,
                          readable=access in ('read', 'readwrite'),
                          writeable=access in ('write', 'readwrite'),
                          emitsOnChange={'true': True, 'false': False,
                                         'invalidates': 'invalidates'}[emits])
    ia = I.DBusInterface(PA, *[prop(k) for k in DECL if k[0] == PA],
                         noRegister=True)
    ib = I.DBusInterface(PB, *[prop(k) for k in DECL if k[0] == PB],
                         noRegister=True)
    ic = I.DBusInterface(PC, *[prop(k) for k in DECL if k[0] == PC],
                         noRegister=True)

    class Base(O.DBusObject):
        dbusInterfaces = [ia, ib]
        title = O.DBusProperty('Title')
        level = O.DBusProperty('Level')
        flag = O.DBusProperty('Flag')
        blob = O.DBusProperty('Blob')
        secret = O.DBusProperty('Secret')
        count = O.DBusProperty('Count')
        shared_a = O.DBusProperty('Shared', PA)
        shared_b = O.DBusProperty('Shared', PB)
        path = O.DBusProperty('Path', PB)
        ratio = O.DBusProperty('Ratio', PB)

    class Derived(Base):
        dbusInterfaces = [ic]
        tags = O.DBusProperty('Tags', PA)
        extra = O.DBusProperty('Extra')

    return Base, Derived


# a third value per basic-typed property: assigned locally wrapped in a
# typed wrapper of a *different* D-Bus type than the declared one (what is
# read back remotely must still be a variant of exactly the declared type)
FOREIGN = {'s': ('ObjectPath', '/w'), 'i': ('Byte', 9), 'u': ('UInt16', 9),
           'b': ('Int32', 1), 'o': ('Signature', '/z'), 'd': ('Int32', 3)}
for _sig, (_cls, _val) in FOREIGN.items():
    VALUES[_sig] = VALUES[_sig] + [_val]


def to_local(sig, v, vi=None):
    if sig == 'ay':
        return bytearray(v)
    if vi == 2 and sig in FOREIGN:
        from txdbus import marshal as M
        return getattr(M, FOREIGN[sig][0])(v)
    return v


def _itag(iface):
    return iface[-2:] if iface in (PA, PB, PC) else 'undeclared:' + iface


class W:
    pass


class PropScenario(explore.Scenario):
    name = 'C17/props'

    def build(self):
        w = W()
        w.cw = fakes.ClientWorld()
        w.ki = None
        if self.params.get('shadow'):
            # the process also knows other definitions under the same three
            # interface names (an older view of the service, learnt from a
            # peer or declared for a proxy): same property names, other
            # types, read-only, no notification.  The exported classes list
            # their own interface objects
            from txdbus import interface as I
            w.ki = fakes.KnownInterfaces().__enter__()
            for P_ in (PA, PB, PC):
                I.DBusInterface(P_, *[
                    I.Property(k[1], 'u' if DECL[k][0] == 's' else 's',
                               readable=True, writeable=False,
                               emitsOnChange=False)
                    for k in DECL if k[0] == P_])
        Base, Derived = make_family()
        # 'c' is a second instance of the base class whose properties are
        # read (locally) before anything was assigned to them and which then
        # gets different values: instances must not share their values
        w.objs = {'b': Base('/b'), 'd': Derived('/d'), 'c': Base('/c')}
        w.keys = {'b': BASE_KEYS, 'd': DERIVED_KEYS, 'c': BASE_KEYS}
        w.store = {'b': {}, 'd': {}, 'c': {}}
        order = self.params.get('init_order', ['b', 'd'])
        if self.params.get('read_first', True):
            for k in BASE_KEYS:
                if getattr(w.objs['c'], ATTR[k]) is not None:
                    raise core.HarnessError('unassigned property reads %r'
                                            % (k,))
        for name in list(order) + ['c']:
            o = w.objs[name]
            for k in w.keys[name]:
                v = VALUES[DECL[k][0]][1 if name == 'c' else 0]
                if name in ('b', 'c') and k == (PA, 'Secret'):
                    # left unassigned until after the export: its first
                    # assignment ever is one of the explored events (it is
                    # write-only, so nothing can read the missing value)
                    w.store[name][k] = None
                    continue
                setattr(o, ATTR[k], to_local(DECL[k][0], v))
                w.store[name][k] = v
        for name in list(order) + ['c']:
            w.cw.conn.exportObject(w.objs[name])
        w.cw.sent()
        w.serial = 200
        return w

    def close(self, w):
        w.cw.close()
        if w.ki is not None:
            w.ki.__exit__()

    def enabled(self, w):
        evs = []
        for name in ('b', 'd', 'c'):
            if name == 'c' and not self.params.get('touch_c'):
                continue
            for ki, k in enumerate(DERIVED_KEYS):
                if k not in w.keys[name]:
                    continue
                sig = DECL[k][0]
                if len(VALUES[sig]) > 2 and \
                        w.store[name][k] != VALUES[sig][2]:
                    evs.append(('assign', name, ki, 2))
                for vi in (0, 1):
                    if w.store[name][k] == VALUES[sig][vi]:
                        # the value it already has, once more: an
                        # assignment (and a Set) like any other, with its
                        # notification
                        evs.append(('assign', name, ki, vi))
                        evs.append(('set', name, ki, vi, 'right'))
                        continue
                    evs.append(('assign', name, ki, vi))
                    for how in ('right', 'empty', 'other'):
                        if how == 'empty' and k[1] == 'Shared':
                            # which of the two declarations an empty
                            # interface name selects is open, and their
                            # types differ: a wrongly typed Set is outside
                            # the statement
                            continue
                        evs.append(('set', name, ki, vi, how))
            evs.append(('set-unknown', name))
        return evs

    def _call(self, w, name, member, sig, body):
        w.serial += 1
        f = {'path': '/' + name, 'member': member, 'sender': CALLER,
             'interface': 'org.freedesktop.DBus.Properties',
             'destination': ':1.7'}
        w.cw.conn.dataReceived(R.encode_message(R.METHOD_CALL, w.serial, f,
                                                sig, body))
        msgs = w.cw.sent()
        mine = [m for m in msgs
                if m['fields'].get('reply_serial') == w.serial]
        return mine, [m for m in msgs if m not in mine]

    def _do(self, w, ev):
        """performs the event; returns (other messages, reply, expected)"""
        if ev[0] == 'assign':
            _, name, ki, vi = ev
            k = DERIVED_KEYS[ki]
            sig = DECL[k][0]
            v = VALUES[sig][vi]
            setattr(w.objs[name], ATTR[k], to_local(sig, v, vi))
            w.store[name][k] = v
            return w.cw.sent(), None, ('changed', name, k, v)
        if ev[0] == 'set-unknown':
            name = ev[1]
            mine, other = self._call(w, name, 'Set', 'ssv',
                                     [PA, 'NoSuchProp', Var('s', 'x')])
            return other, mine, ('refused', name, None, None)
        _, name, ki, vi, how = ev
        k = DERIVED_KEYS[ki]
        sig, access, emits = DECL[k]
        v = VALUES[sig][vi]
        iface = {'right': k[0], 'empty': '',
                 'other': PB if k[0] != PB else PC}[how]
        mine, other = self._call(w, name, 'Set', 'ssv',
                                 [iface, k[1], Var(sig, v)])
        writable = access in ('write', 'readwrite')
        if how == 'other':
            # (PA,'Shared') asked on PB hits PB's read-only Shared
            target = (iface, k[1])
            if target in w.keys[name] and \
                    DECL[target][1] in ('write', 'readwrite') and \
                    DECL[target][0] == sig:
                w.store[name][target] = v
                return other, mine, ('changed', name, target, v)
            return other, mine, ('refused', name, None, None)
        if how == 'empty' and k[1] == 'Shared':
            return other, mine, ('ambiguous', name, k, v)
        if writable:
            w.store[name][k] = v
            return other, mine, ('changed', name, k, v)
        return other, mine, ('refused', name, None, None)

    def advance(self, w, ev):
        other, mine, exp = self._do(w, ev)
        if exp[0] == 'ambiguous':
            self._resolve_ambiguous(w, exp)
        # reads are part of the history (they may be cached): repeat them
        self._readback(w, ev[1], ev, 'replay')

    def _resolve_ambiguous(self, w, exp):
        """Set with an empty interface name on a property name two interfaces
        declare: whichever the object chose, adopt it (the statement leaves
        the choice open); returns the key chosen or None"""
        _, name, k, v = exp
        o = w.objs[name]
        for cand in ((PA, 'Shared'), (PB, 'Shared')):
            cur = getattr(o, ATTR[cand])
            if cur != w.store[name][cand]:
                w.store[name][cand] = cur if not isinstance(
                    cur, bytearray) else list(cur)
                return cand
        return None

    def apply(self, w, ev):
        viol = []
        before = {n: dict(s) for n, s in w.store.items()}
        try:
            other, mine, exp = self._do(w, ev)
        except Exception as e:
            return [('%s/%s/raises-%s' % (PROP, ev[0], type(e).__name__),
                     'event %r raised %r' % (ev, e))]
        chosen = None
        if exp[0] == 'ambiguous':
            chosen = self._resolve_ambiguous(w, exp)
            if chosen is not None and \
                    DECL[chosen][1] in ('write', 'readwrite'):
                exp = ('changed', exp[1], chosen, exp[3])
            elif chosen is not None:
                viol.append(('%s/set/read-only-changed' % PROP,
                             '%r changed the read-only %r' % (ev, chosen)))
                exp = ('changed', exp[1], chosen, exp[3])
            else:
                exp = ('refused', exp[1], None, None)
        tag = self._tag(ev)
        # reply to a remote Set
        if mine is not None:
            if len(mine) != 1:
                viol.append(('%s/set/replies/%s' % (PROP, tag),
                             '%r got %d replies' % (ev, len(mine))))
            elif exp[0] == 'changed' and mine[0]['type'] != 2:
                viol.append(('%s/set/refused-writable/%s' % (PROP, tag),
                             '%r should succeed but was answered %r'
                             % (ev, _b(mine[0]))))
            elif exp[0] == 'refused' and mine[0]['type'] != 3:
                viol.append(('%s/set/accepted/%s' % (PROP, tag),
                             '%r must fail with an error reply but was '
                             'answered %r' % (ev, _b(mine[0]))))
        # change notification
        sigs = [m for m in other if m['type'] == 4
                and m['fields'].get('member') == 'PropertiesChanged']
        stray = [m for m in other if m not in sigs]
        if stray:
            viol.append(('%s/stray-messages/%s' % (PROP, tag),
                         '%r produced %r' % (ev, [_b(m) for m in stray])))
        want_sig = []
        if exp[0] == 'changed' and DECL[exp[2]][2] == 'true':
            want_sig = [[exp[2][0], {exp[2][1]: exp[3]}, []]]
        got_sig = [m['body_plain'] for m in sigs]
        path_ok = all(m['fields'].get('path') == '/' + exp[1] for m in sigs)
        if got_sig != want_sig or not path_ok:
            viol.append(('%s/notify/%s/%s' % (
                PROP, tag, 'missing' if not got_sig else
                'unexpected' if not want_sig else 'wrong'),
                '%r: PropertiesChanged signals %r, expected %r'
                % (ev, got_sig, want_sig)))
        # the store of every object that should not have changed did not
        viol.extend(self._readback(w, ev[1], ev, tag))
        for other_name in ('b', 'd', 'c'):
            if other_name != ev[1]:
                viol.extend(self._readback(w, other_name, ev, tag,
                                           light=True))
        return viol

    def _tag(self, ev):
        if ev[0] == 'set-unknown':
            return 'unknown-property'
        k = DERIVED_KEYS[ev[2]]
        t = '%s.%s/%s' % (k[0][-2:], k[1], DECL[k][1])
        if ev[0] == 'set':
            t += '/iface-' + ev[4]
        return '%s/%s' % (ev[1], t)

    def _readback(self, w, name, ev, tag, light=False):
        viol = []
        store = w.store[name]
        keys = w.keys[name]
        # GetAll per interface
        # (and names that are a proper prefix / an extension of declared
        # ones: they name no interface of the object)
        for iface in (PA, PB, PC, 'org.ex.Unknown', 'org.ex.P', 'org.ex',
                      PA + 'X', PB + '.Y'):
            mine, other = self._call(w, name, 'GetAll', 's', [iface])
            want = {k[1]: store[k] for k in keys if k[0] == iface
                    and DECL[k][1] != 'write'}
            declared = any(k[0] == iface for k in keys)
            if len(mine) != 1:
                viol.append(('%s/getall/replies' % PROP,
                             'GetAll(%s) on %s: %d replies'
                             % (iface, name, len(mine))))
                continue
            m = mine[0]
            if m['type'] == 3:
                if declared:
                    viol.append(('%s/getall/error/%s' % (PROP, _itag(iface)),
                                 'after %r: GetAll(%s) on /%s failed: %r'
                                 % (ev, iface, name, _b(m))))
                continue
            got = m['body_plain'][0]
            if got != want:
                viol.append((
                    '%s/getall/%s/%s' % (
                        PROP, _itag(iface),
                        'missing' if set(want) - set(got) else
                        'extra' if set(got) - set(want) else 'value'),
                    'after %r: GetAll(%s) on /%s = %r, expected %r'
                    % (ev, iface, name, got, want)))
            else:
                # declared basic types travel as exactly that type
                for (pn, var) in m['body'][0]:
                    sig = DECL[(iface, pn)][0]
                    if len(sig) == 1 and var.sig != sig:
                        viol.append(('%s/getall/type/%s' % (PROP, pn),
                                     'GetAll(%s).%s travels as %r, declared '
                                     '%r' % (iface, pn, var.sig, sig)))
        if light:
            return viol
        # Get per (interface kind, property)
        for k in DERIVED_KEYS:
            sig, access, emits = DECL[k]
            for how in ('right', 'empty', 'unknown-iface', 'prefix-iface',
                        'longer-iface'):
                iface = {'right': k[0], 'empty': '',
                         'unknown-iface': 'org.ex.Unknown',
                         'prefix-iface': k[0][:-1],
                         'longer-iface': k[0] + 'X'}[how]
                mine, other = self._call(w, name, 'Get', 'ss', [iface, k[1]])
                if len(mine) != 1:
                    viol.append(('%s/get/replies' % PROP,
                                 'Get(%s,%s): %d replies'
                                 % (iface, k[1], len(mine))))
                    continue
                m = mine[0]
                present = k in keys
                if how.endswith('-iface') or not present and not (
                        how == 'empty' and any(kk[1] == k[1]
                                               for kk in keys)):
                    if m['type'] != 3:
                        viol.append((
                            '%s/get/unknown-answered/%s' % (PROP, how),
                            'after %r: Get(%r, %r) on /%s must fail, got %r'
                            % (ev, iface, k[1], name, _b(m))))
                    continue
                cands = [k] if how == 'right' else \
                    [kk for kk in keys if kk[1] == k[1]]
                readable = [c for c in cands if DECL[c][1] != 'write']
                if not readable:
                    if m['type'] != 3:
                        viol.append((
                            '%s/get/unreadable-revealed' % PROP,
                            'after %r: Get(%r, %r) on /%s reveals the '
                            'write-only property: %r'
                            % (ev, iface, k[1], name, _b(m))))
                    continue
                if m['type'] != 2:
                    viol.append(('%s/get/error/%s.%s/iface-%s'
                                 % (PROP, k[0][-2:], k[1], how),
                                 'after %r: Get(%r, %r) on /%s failed: %r'
                                 % (ev, iface, k[1], name, _b(m))))
                    continue
                var = m['body'][0]
                ok = False
                for c in readable:
                    csig = DECL[c][0]
                    if m['body_plain'][0] == store[c] and (
                            len(csig) > 1 or var.sig == csig):
                        ok = True
                if not ok:
                    viol.append((
                        '%s/get/value/%s.%s/iface-%s'
                        % (PROP, k[0][-2:], k[1], how),
                        'after %r: Get(%r, %r) on /%s = %r (variant %r), '
                        'expected %r as %r'
                        % (ev, iface, k[1], name, m['body_plain'][0],
                           var.sig, [store[c] for c in readable],
                           [DECL[c][0] for c in readable])))
            # the same characters split elsewhere between interface and
            # property name (after the right pair has been asked for): an
            # unknown interface with an unknown property, an error
            for iface, prop in ((k[0] + k[1][:1], k[1][1:]),
                                (k[0][:-1], k[0][-1:] + k[1]),
                                ('', k[0] + k[1]), (k[0] + k[1], '')):
                if (iface, prop) in keys or (iface == '' and any(
                        kk[1] == prop for kk in keys)):
                    continue
                mine, other = self._call(w, name, 'Get', 'ss', [iface, prop])
                if len(mine) != 1 or mine[0]['type'] != 3:
                    viol.append((
                        '%s/get/unknown-answered/shifted-split' % PROP,
                        'after %r: Get(%r, %r) on /%s (the text of %r + %r '
                        'split elsewhere) must fail, got %r'
                        % (ev, iface, prop, name, k[0], k[1],
                           [_b(m) for m in mine])))
        return viol

    def canon(self, w):
        return tuple(sorted((n, k, repr(v)) for n, s in w.store.items()
                            for k, v in s.items()))

    def nontrivial(self, hist):
        return len(hist) > 1


def _b(m):
    return (m['type'], m['fields'].get('error_name'), m['body_plain'])


def run(ctx):
    ctx.rule = (
        '(plus: properties declared on a plain mixin before / after '
        'DBusObject in the bases, interface named or not) '
        'object family built fresh per execution: %d property declarations '
        'over 3 interfaces (types s i b ay u as o d; read / write / readwrite; '
        'notification true / false / invalidates), one name declared '
        'differently on two interfaces and bound explicitly, a derived class '
        'binding a further property of an interface its base class binds. '
        'Events: local assignment and remote Set (right, empty and other-'
        'existing interface name; an unknown property) of each property to '
        'each of 2 values, on both objects, both initialisation orders of '
        'the two classes. After every event: the Set reply, the '
        'PropertiesChanged signals, GetAll for every interface (and an '
        'unknown one) on both objects and Get for every property under '
        'right / empty / unknown interface names are compared with the '
        'reference store. Search is breadth-first with deduplication on the '
        'store to depth %d' % (len(DECL), 2 if ctx.quick else 3))
    ctx.assumptions = [
        'Set/Get with an empty interface name on a property name declared by '
        'two interfaces may choose either (adopted from the object)',
        'GetAll on an unknown interface may fail or return nothing']
    d = 2 if ctx.quick else 3
    ctx.map(_task_early, [0])
    explore.explore(ctx, PropScenario, {'init_order': ['b', 'd']},
                    max_depth=d, label='base first, depth %d' % d,
                    max_states=60000)
    explore.explore(ctx, PropScenario, {'init_order': ['d', 'b']},
                    max_depth=1 if ctx.quick else 2,
                    label='derived first')
    explore.explore(ctx, PropScenario, {'init_order': ['b', 'd'],
                                        'shadow': True},
                    max_depth=1 if ctx.quick else 2,
                    label='other definitions known under the same interface '
                          'names')
    ctx.bounds = {'declarations': len(DECL), 'values_per_property': 2}


def run_early(which):
    """properties assigned in a subclass constructor BEFORE the base class
    constructor runs (the descriptor creates its store on demand, so this is
    an order the library supports): the values are what Get / GetAll return"""
    viol = []
    cw = fakes.ClientWorld()
    try:
        Base, Derived = make_family()
        klass = Base if which == 'base' else Derived
        keys = BASE_KEYS if which == 'base' else DERIVED_KEYS

        class Early(klass):
            def __init__(self, path):
                for k in keys:
                    setattr(self, ATTR[k], to_local(DECL[k][0],
                                                    VALUES[DECL[k][0]][1]))
                klass.__init__(self, path)
        o = Early('/early')
        cw.conn.exportObject(o)
        cw.sent()
        serial = 300
        for k in keys:
            sig, access, emits = DECL[k]
            serial += 1
            cw.conn.dataReceived(R.encode_message(
                R.METHOD_CALL, serial,
                {'path': '/early', 'member': 'Get', 'sender': CALLER,
                 'interface': 'org.freedesktop.DBus.Properties',
                 'destination': ':1.7'}, 'ss', [k[0], k[1]]))
            mine = [m for m in cw.sent()
                    if m['fields'].get('reply_serial') == serial]
            want = VALUES[sig][1]
            if access == 'write':
                ok = len(mine) == 1 and mine[0]['type'] == 3
            else:
                ok = len(mine) == 1 and mine[0]['type'] == 2 and \
                    mine[0]['body_plain'][0] == want
            if not ok:
                viol.append(('early/%s/%s.%s' % (which, k[0][-2:], k[1]),
                             '%s.%s was assigned %r in the constructor of a '
                             'subclass before the base constructor ran; Get '
                             'answers %r' % (k[0], k[1], want,
                                             [_b(m) for m in mine])))
    except Exception as e:
        viol.append(('early/%s/raises-%s' % (which, type(e).__name__),
                     'assigning before the base constructor: %r' % (e,)))
    finally:
        cw.close()
    return viol


def run_failed_sibling(order):
    """two classes share a base that binds properties by name; one of them
    is mis-declared (its interface lacks one of the properties) and fails
    when it is first used.  The correctly declared sibling is unaffected,
    whichever of the two is used first."""
    from txdbus import objects as O, interface as I
    viol = []
    cw = fakes.ClientWorld()
    try:
        full = I.DBusInterface(
            'org.ex.Sib', I.Property('Alpha', 's', writeable=True),
            I.Property('Beta', 'u', writeable=True),
            I.Property('Gamma', 's', writeable=True), noRegister=True)
        # (an older revision of the same interface)
        partial = I.DBusInterface(
            'org.ex.Sib', I.Property('Alpha', 's', writeable=True),
            noRegister=True)

        class Mix(O.DBusObject):
            alpha = O.DBusProperty('Alpha')
            beta = O.DBusProperty('Beta')
            gamma = O.DBusProperty('Gamma')

        class Old(Mix):
            dbusInterfaces = [partial]

        class New(Mix):
            dbusInterfaces = [full]

        def use_old():
            try:
                o = Old('/old')
                o.alpha = 'a'
                o.beta = 1
                cw.conn.exportObject(o)
            except Exception:
                pass

        def use_new():
            n = New('/new')
            n.alpha, n.beta, n.gamma = 'va', 7, 'vg'
            cw.conn.exportObject(n)
        for step in order:
            {'old': use_old, 'new': use_new}[step]()
        cw.sent()
        serial = 400
        for name, want in (('Alpha', 'va'), ('Beta', 7), ('Gamma', 'vg')):
            serial += 1
            cw.conn.dataReceived(R.encode_message(
                R.METHOD_CALL, serial,
                {'path': '/new', 'member': 'Get', 'sender': CALLER,
                 'interface': 'org.freedesktop.DBus.Properties',
                 'destination': ':1.7'}, 'ss', ['org.ex.Sib', name]))
            mine = [m for m in cw.sent()
                    if m['fields'].get('reply_serial') == serial]
            if len(mine) != 1 or mine[0]['type'] != 2 or \
                    mine[0]['body_plain'][0] != want:
                viol.append(('failed-sibling/%s' % name,
                             'classes used in the order %r (the old one is '
                             'mis-declared and fails): Get(%s) on the '
                             'correct one answers %r, expected %r'
                             % (list(order), name, [_b(m) for m in mine],
                                want)))
    except Exception as e:
        viol.append(('failed-sibling/raises-%s' % type(e).__name__,
                     'order %r: %r' % (list(order), e)))
    finally:
        cw.close()
    return viol


def run_shared_descriptor(order):
    """two correctly declared classes share a base that binds a property by
    name only; each exports it on an interface of its own.  Whichever is
    used first, both answer for their own interface."""
    from txdbus import objects as O, interface as I
    viol = []
    cw = fakes.ClientWorld()
    try:
        ia = I.DBusInterface('org.ex.SibA', I.Property('Alpha', 's'),
                             noRegister=True)
        ib = I.DBusInterface('org.ex.SibB', I.Property('Alpha', 's'),
                             noRegister=True)

        class Mix(O.DBusObject):
            alpha = O.DBusProperty('Alpha')

        class A(Mix):
            dbusInterfaces = [ia]

        class B(Mix):
            dbusInterfaces = [ib]
        objs = {}
        for name in order:
            o = {'a': A, 'b': B}[name]('/' + name)
            o.alpha = 'value-' + name
            cw.conn.exportObject(o)
            objs[name] = o
        cw.sent()
        serial = 500
        for name in order:
            serial += 1
            iface = 'org.ex.Sib' + name.upper()
            cw.conn.dataReceived(R.encode_message(
                R.METHOD_CALL, serial,
                {'path': '/' + name, 'member': 'Get', 'sender': CALLER,
                 'interface': 'org.freedesktop.DBus.Properties',
                 'destination': ':1.7'}, 'ss', [iface, 'Alpha']))
            mine = [m for m in cw.sent()
                    if m['fields'].get('reply_serial') == serial]
            if len(mine) != 1 or mine[0]['type'] != 2 or \
                    mine[0]['body_plain'][0] != 'value-' + name:
                viol.append((
                    'shared-descriptor/%s-used-%s'
                    % (name, 'first' if order[0] == name else 'second'),
                    'a base class binds DBusProperty(\'Alpha\') by name; '
                    'subclass A exports it on org.ex.SibA, subclass B on '
                    'org.ex.SibB; used in the order %r, Get(%s, Alpha) on /%s '
                    'answers %r' % (list(order), iface, name,
                                    [_b(m) for m in mine])))
    except Exception as e:
        viol.append(('shared-descriptor/raises-%s' % type(e).__name__,
                     'order %r: %r' % (list(order), e)))
    finally:
        cw.close()
    return viol


def run_store():
    """an object whose own interface has members called Get, Set and GetAll
    (a key/value store), implemented under the conventional names and bound
    to that interface with the decorator: the Properties interface still
    answers for the properties"""
    from txdbus import objects as O, interface as I
    viol = []
    cw = fakes.ClientWorld()
    try:
        store = I.DBusInterface(
            'org.ex.Store', I.Method('Get', 's', 's'),
            I.Method('Set', 'ss', ''), I.Method('GetAll', '', 'as'),
            noRegister=True)
        props = I.DBusInterface(
            'org.ex.Named', I.Property('Title', 's', writeable=True),
            I.Property('Count', 'u', writeable=True), noRegister=True)
        calls = []

        class Dev(O.DBusObject):
            dbusInterfaces = [store, props]
            title = O.DBusProperty('Title')
            count = O.DBusProperty('Count')

            @O.dbusMethod('org.ex.Store', 'Get')
            def dbus_Get(self, key):
                calls.append(('Get', key))
                return 'stored:' + key

            @O.dbusMethod('org.ex.Store', 'Set')
            def dbus_Set(self, key, value):
                calls.append(('Set', key, value))

            @O.dbusMethod('org.ex.Store', 'GetAll')
            def dbus_GetAll(self):
                calls.append(('GetAll',))
                return ['k']
        o = Dev('/dev')
        o.title, o.count = 't0', 1
        cw.conn.exportObject(o)
        cw.sent()
        serial = 600
        P = 'org.freedesktop.DBus.Properties'
        steps = [
            (P, 'Get', 'ss', ['org.ex.Named', 'Title'], ('ok', ['t0'])),
            (P, 'Set', 'ssv', ['org.ex.Named', 'Title', Var('s', 't1')],
             ('ok', [])),
            (P, 'Get', 'ss', ['org.ex.Named', 'Title'], ('ok', ['t1'])),
            (P, 'GetAll', 's', ['org.ex.Named'],
             ('ok', [{'Title': 't1', 'Count': 1}])),
            ('org.ex.Store', 'Get', 's', ['k'], ('ok', ['stored:k'])),
            ('org.ex.Store', 'Set', 'ss', ['k', 'v'], ('ok', [])),
            ('org.ex.Store', 'GetAll', '', [], ('ok', [['k']])),
            (P, 'Get', 'ss', ['org.ex.Named', 'Count'], ('ok', [1])),
        ]
        for iface, member, sig, body, want in steps:
            serial += 1
            cw.conn.dataReceived(R.encode_message(
                R.METHOD_CALL, serial,
                {'path': '/dev', 'member': member, 'sender': CALLER,
                 'interface': iface, 'destination': ':1.7'}, sig, body))
            msgs = cw.sent()
            mine = [m for m in msgs
                    if m['fields'].get('reply_serial') == serial]
            got = ('ok', mine[0]['body_plain']) if len(mine) == 1 and \
                mine[0]['type'] == 2 else ('other', [_b(m) for m in mine])
            if got != want:
                viol.append(('store/%s.%s' % (iface.split('.')[-1], member),
                             'an object with its own Get/Set/GetAll members '
                             '(interface org.ex.Store) and properties: '
                             '%s.%s%r answered %r, expected %r'
                             % (iface, member, tuple(body), got, want)))
        if [c[0] for c in calls] != ['Get', 'Set', 'GetAll']:
            viol.append(('store/invocations',
                         'the store\'s own methods ran %r' % (calls,)))
    except Exception as e:
        viol.append(('store/raises-%s' % type(e).__name__, '%r' % (e,)))
    finally:
        cw.close()
    return viol


def run_mixin(mixin_first, explicit):
    """properties declared on a plain Python mixin (not a DBusObject) that
    the exported class lists among its bases, before or after DBusObject,
    with the interface named explicitly or left to be found"""
    from txdbus import objects as O, interface as I
    viol = []
    cw = fakes.ClientWorld()
    try:
        audio = I.DBusInterface(
            'org.ex.Audio', I.Property('Volume', 'u', writeable=True),
            I.Property('Muted', 'b', writeable=True, emitsOnChange=False),
            noRegister=True)
        other = I.DBusInterface(
            'org.ex.Named', I.Property('Title', 's', writeable=True),
            noRegister=True)

        class AudioProps(object):
            volume = O.DBusProperty('Volume', 'org.ex.Audio') if explicit \
                else O.DBusProperty('Volume')
            muted = O.DBusProperty('Muted', 'org.ex.Audio') if explicit \
                else O.DBusProperty('Muted')

        bases = (AudioProps, O.DBusObject) if mixin_first else \
            (O.DBusObject, AudioProps)
        Player = type('Player', bases, {
            'dbusInterfaces': [audio, other],
            'title': O.DBusProperty('Title')})
        o = Player('/player')
        where = 'mixin %s DBusObject, interface %s' % (
            'before' if mixin_first else 'after',
            'named' if explicit else 'not named')
        try:
            o.volume, o.muted, o.title = 1, True, 'a'
            cw.conn.exportObject(o)
            cw.sent()
            o.volume = 5
            o.muted = False
            o.title = 't'
        except Exception as e:
            viol.append(('mixin/assign-raises-%s' % type(e).__name__,
                         '%s: assigning the properties locally raised %r'
                         % (where, e)))
            return viol
        sigs = [m for m in cw.sent() if m['type'] == 4]
        changed = sorted(k for m in sigs if m['fields'].get('member') ==
                         'PropertiesChanged'
                         for k in m['body_plain'][1])
        if changed != ['Title', 'Volume']:
            viol.append(('mixin/changed-signals',
                         '%s: local assignment of Volume, Muted (no '
                         'notification) and Title announced %r'
                         % (where, changed)))
        P = 'org.freedesktop.DBus.Properties'
        serial = 700
        steps = [
            ('Get', 'ss', ['org.ex.Audio', 'Volume'], ('ok', [5])),
            ('Get', 'ss', ['org.ex.Audio', 'Muted'], ('ok', [False])),
            ('Set', 'ssv', ['org.ex.Audio', 'Volume', Var('u', 9)],
             ('ok', [])),
            ('Get', 'ss', ['org.ex.Audio', 'Volume'], ('ok', [9])),
            ('GetAll', 's', ['org.ex.Audio'],
             ('ok', [{'Volume': 9, 'Muted': False}])),
            ('GetAll', 's', ['org.ex.Named'], ('ok', [{'Title': 't'}])),
            ('Set', 'ssv', ['org.ex.Audio', 'Muted', Var('b', True)],
             ('ok', [])),
            ('Get', 'ss', ['org.ex.Audio', 'Muted'], ('ok', [True])),
        ]
        for member, sig, body, want in steps:
            serial += 1
            cw.conn.dataReceived(R.encode_message(
                R.METHOD_CALL, serial,
                {'path': '/player', 'member': member, 'sender': CALLER,
                 'interface': P, 'destination': ':1.7'}, sig, body))
            mine = [m for m in cw.sent()
                    if m['fields'].get('reply_serial') == serial]
            got = ('ok', mine[0]['body_plain']) if len(mine) == 1 and \
                mine[0]['type'] == 2 else ('other', [_b(m) for m in mine])
            if got != want:
                viol.append(('mixin/%s' % member,
                             '%s: %s%r answered %r, expected %r'
                             % (where, member, tuple(body[:2]), got, want)))
                break
        if not viol and (o.volume, o.muted) != (9, True):
            viol.append(('mixin/local-read',
                         '%s: after the remote Sets the object reads '
                         'volume=%r muted=%r' % (where, o.volume, o.muted)))
    except Exception as e:
        viol.append(('mixin/raises-%s' % type(e).__name__,
                     'mixin first %r, explicit %r: %r' % (mixin_first,
                                                          explicit, e)))
    finally:
        cw.close()
    return viol


def _task_early(_):
    res = core.Result()
    for mixin_first in (True, False):
        for explicit in (True, False):
            res.count('states')
            res.count('transitions', 11)
            res.count('evaluations')
            res.count('nontrivial')
            for t, w in run_mixin(mixin_first, explicit):
                res.violation('%s/%s' % (PROP, t), w,
                              {'part': 'mixin', 'args': [mixin_first,
                                                         explicit]}, size=1)
    for which in ('base', 'derived'):
        res.count('states')
        res.count('transitions', 12)
        res.count('evaluations')
        res.count('nontrivial')
        for t, w in run_early(which):
            res.violation('%s/%s' % (PROP, t), w,
                          {'part': 'early', 'which': which}, size=1)
    for order in (('new',), ('old', 'new'), ('new', 'old'),
                  ('old', 'old', 'new')):
        res.count('states')
        res.count('transitions', 3)
        res.count('evaluations')
        res.count('nontrivial')
        for t, w in run_failed_sibling(order):
            res.violation('%s/%s' % (PROP, t), w,
                          {'part': 'sibling', 'order': list(order)}, size=1)
    res.count('states')
    res.count('transitions', 8)
    res.count('evaluations')
    for t, w in run_store():
        res.violation('%s/%s' % (PROP, t), w, {'part': 'store'}, size=1)
    for order in (('a',), ('b',), ('a', 'b'), ('b', 'a')):
        res.count('states')
        res.count('transitions', len(order))
        res.count('evaluations')
        res.count('nontrivial')
        for t, w in run_shared_descriptor(order):
            res.violation('%s/%s' % (PROP, t), w,
                          {'part': 'shared', 'order': list(order)}, size=1)
    return res


def replay(data):
    if data.get('part') == 'mixin':
        return [('%s/%s' % (PROP, t), w) for t, w in
                run_mixin(*data['args'])]
    if data.get('part') == 'store':
        return [('%s/%s' % (PROP, t), w) for t, w in run_store()]
    if data.get('part') == 'shared':
        return [('%s/%s' % (PROP, t), w)
                for t, w in run_shared_descriptor(tuple(data['order']))]
    if data.get('part') == 'sibling':
        return [('%s/%s' % (PROP, t), w)
                for t, w in run_failed_sibling(tuple(data['order']))]
    if data.get('part') == 'early':
        return [('%s/%s' % (PROP, t), w) for t, w in run_early(data['which'])]
    return explore.replay_violation(data)
