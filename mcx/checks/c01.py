"""
C01 - encode then decode is the identity, and the decoder consumes exactly
what the encoder produced.

Bounded-exhaustive over signature sequences (<= K nodes) x boundary values x
presentation styles x both byte orders x start offsets 0..7.
"""
from mcx import core, space, codec_space as CS, refcodec as R

PROP = 'C01'


def one_case(res, sig, ts, refvals, style, le, off, fds=False):
    """One marshal/unmarshal round trip; records a violation or returns."""
    from txdbus import marshal as M
    res.count('evaluations')
    res.count('transitions', 2)
    tx = [space.to_tx(t, v, style) for t, v in zip(ts, refvals)]
    want = R.as_plain(ts, refvals)
    rep = {'sig': sig, 'values': repr(refvals), 'style': style,
           'little': le, 'offset': off}
    try:
        if fds:
            oob = []
            n, chunks = M.marshal(sig, tx, off, le, oob)
        else:
            n, chunks = M.marshal(sig, tx, off, le)
        data = b''.join(chunks)
    except Exception as e:
        res.violation('%s/encode-raises/%s/%s' % (PROP, type(e).__name__, sig),
                      'marshal(%r, %r, %d, %s) raised %r'
                      % (sig, tx, off, le, e), rep, size=len(sig))
        return None
    if n != len(data):
        res.violation('%s/encoder-length/%s' % (PROP, sig),
                      'marshal(%r, %r, %d, %s) reported %d bytes but produced '
                      '%d' % (sig, tx, off, le, n, len(data)), rep,
                      size=len(sig))
        return None
    buf = bytes([CS.FILL]) * off + data
    try:
        if fds:
            m, out = M.unmarshal(sig, buf, off, le, oob)
        else:
            m, out = M.unmarshal(sig, buf, off, le)
    except Exception as e:
        res.violation('%s/decode-raises/%s/%s' % (PROP, type(e).__name__, sig),
                      'unmarshal of marshal(%r, %r, %d, %s) raised %r'
                      % (sig, tx, off, le, e), rep, size=len(sig))
        return None
    if m != n:
        res.violation('%s/consumed/%s' % (PROP, sig),
                      'encoder produced %d bytes, decoder consumed %d '
                      '(%r, %r, offset %d, little=%s)'
                      % (n, m, sig, tx, off, le), rep, size=len(sig))
    elif not R.same(out, want):
        res.violation('%s/value/%s' % (PROP, sig),
                      'round trip of %r under %r (offset %d, little=%s) gave '
                      '%r' % (want, sig, off, le, out), rep, size=len(sig))
    return data


class _Unsendable:
    pass


def failed_first_use(res, sig, ts, refvals):
    """The first uses of a signature in this process are ones that fail
    half-way: values that cannot be encoded from some position on, bytes that
    end too early, a split that is abandoned.  Whatever the library remembers
    about a signature must not be learnt from those."""
    from txdbus import marshal as M
    if len(ts) < 2:
        return
    res.count('transitions', 3)
    tx = [space.to_tx(t, v, 'list') for t, v in zip(ts, refvals)]
    for k in range(1, len(ts)):
        try:
            M.marshal(sig, tx[:k] + [_Unsendable()] * (len(ts) - k))
        except Exception:
            pass
    data = R.encode(ts, refvals, 0, True)
    for cut in (len(data) - 1, len(data) // 2, 1):
        try:
            M.unmarshal(sig, data[:cut])
        except Exception:
            pass
    try:
        next(iter(M.genCompleteTypes(sig)))
    except Exception:
        pass


def _scribble(v):
    """what a receiver may do with a decoded value that is its own: add to
    every dictionary and list in it"""
    if isinstance(v, dict):
        for x in list(v.values()):
            _scribble(x)
        v['\0scribbled'] = {'by': 'receiver'}
    elif isinstance(v, list):
        for x in v:
            _scribble(x)
        v.append('scribbled')


def ownership_case(res, sig, ts, refvals):
    """decoded values belong to the receiver and encoded ones stay the
    sender's: decode, let the receiver add to every container of the
    result, decode the same bytes again - the second result is as the
    first was; and encoding leaves the sender's values as they were"""
    from txdbus import marshal as M
    import copy
    res.count('transitions', 3)
    want = R.as_plain(ts, refvals)
    data = R.encode(ts, refvals, 0, True)
    rep = {'sig': sig, 'values': repr(refvals), 'style': 'ownership',
           'little': True, 'offset': 0}
    try:
        _n, out1 = M.unmarshal(sig, data, 0, True)
        _scribble(out1)
        _n, out2 = M.unmarshal(sig, data, 0, True)
        if not R.same(out2, want):
            res.violation('%s/shared-result/%s' % (PROP, sig),
                          'after the receiver of a decoded %r added to the '
                          'containers it was given, decoding the same bytes '
                          'again gave %r instead of %r'
                          % (sig, out2, want), rep, size=len(sig))
            return
        tx = [space.to_tx(t, v, 'list') for t, v in zip(ts, refvals)]
        before = copy.deepcopy(tx)
        M.marshal(sig, tx, 0, True)
        if not R.same(tx, before) or repr(tx) != repr(before):
            res.violation('%s/sender-values-changed/%s' % (PROP, sig),
                          'marshal(%r, ...) changed the values it was given: '
                          '%r -> %r' % (sig, before, tx), rep, size=len(sig))
    except Exception:
        pass        # judged by one_case


def _task(task):
    res = core.Result()
    nseq = 0
    for ts in CS.cases_of(task):
        nseq += 1
        sig = space.sig_of(ts)
        styles = CS.styles_for(ts)
        nt = space.nontrivial(ts)
        first = True
        for vals in space.assignments(ts):
            refvals = space.thaw(vals)
            res.count('states')
            if nt:
                res.count('nontrivial')
            if first:
                first = False
                failed_first_use(res, sig, ts, refvals)
            if nt:
                ownership_case(res, sig, ts, refvals)
            for style in styles:
                for le in (True, False):
                    for off in range(8):
                        one_case(res, sig, ts, refvals, style, le, off)
        if nseq % 400 == 1:
            res.sample({'signature': sig, 'values': repr(refvals)[:200],
                        'styles': styles, 'offsets': '0..7',
                        'byte_orders': 'both'})
        res.outcome(sig if len(res.outcomes) < 300 else '')
    res.count('signatures', nseq)
    return res


def _task_special(_):
    res = core.Result()
    for sig, refvals in CS.deep_families():
        ts = R.parse_sig(sig)
        for style in CS.styles_for(ts):
            for le in (True, False):
                for off in range(8):
                    one_case(res, sig, ts, refvals, style, le, off)
        res.count('states')
        res.count('nontrivial')
        res.count('deep_family_cases')
    # descriptors: 'h' values travel as indexes into the out-of-band list
    for sig, refvals in (('h', [5]), ('hh', [7, 9]), ('shs', ['a', 3, 'b']),
                         ('ah', [[4, 5, 6]]), ('(hs)h', [[8, 'x'], 2]),
                         ('a{sh}', [[['k', 11]]]), ('yah', [1, []]),
                         # one descriptor referenced several times, next to
                         # others, adjacent and not
                         ('ah', [[5, 6, 5]]), ('hhh', [5, 6, 5]),
                         ('ah', [[7, 7, 8, 7]]), ('(hsh)h', [[5, 'x', 6], 5]),
                         ('a{sh}', [[['in', 5], ['log', 6], ['out', 5]]]),
                         ('a(hh)', [[[5, 6], [6, 5], [5, 5]]])):
        ts = R.parse_sig(sig)
        for le in (True, False):
            for off in range(8):
                one_case(res, sig, ts, refvals, 'list', le, off, fds=True)
        res.count('states')
        res.count('nontrivial')
    return res


def scale_values(kind, n):
    """(signature, reference values) of a family member with n elements"""
    if kind == 'ay':
        return 'ay', [[i % 251 for i in range(n)]]
    if kind == 'aq':
        return 'yaq', [7, [(i * 7) % 65536 for i in range(n)]]
    if kind == 'at':
        return 'at', [[(i * 0x10001) % (1 << 64) for i in range(n)]]
    if kind == 'as':
        return 'as', [['s%d' % (i % 13) for i in range(n)]]
    if kind == 'a(yx)':
        return 'a(yx)', [[[i % 256, i - 5] for i in range(n)]]
    if kind == 'a{us}':
        return 'a{us}', [[[i, 'v%d' % (i % 7)] for i in range(n)]]
    if kind == 'aay':
        return 'aay', [[[i % 256] * (i % 3) for i in range(n)]]
    if kind == 'av':
        return 'av', [[R.Var('y', i % 256) if i % 2 else R.Var('s', 'x')
                       for i in range(n)]]
    if kind == 's':
        return 'sy', [''.join(chr(97 + i % 26) for i in range(n)), 1]
    if kind == 'aay-inner':
        return 'aay', [[[1], [i % 256 for i in range(n)], [2]]]
    if kind == 'g':
        return 'gy', ['i' * n, 5]
    if kind == 'v-long-sig':
        return 'v', [R.Var('(' + 'y' * (n - 2) + ')',
                           [i % 256 for i in range(n - 2)])]
    raise ValueError(kind)


SCALE_KINDS = ['ay', 'aq', 'at', 'as', 'a(yx)', 'a{us}', 'aay', 'av', 's',
               'aay-inner']


def _task_scale(task):
    """element counts and string lengths around one-byte, page-size and
    two-byte limits"""
    from mcx import scale
    quick, kind = task
    res = core.Result()
    ns = scale.ladder(8193 if quick else 65537)
    if kind in ('g', 'v-long-sig'):
        # signatures: at most 255 characters
        ns = [126, 127, 128, 129, 130, 191, 192, 200, 254, 255]
    for n in ns:
        sig, refvals = scale_values(kind, n)
        ts = R.parse_sig(sig)
        res.count('states')
        res.count('nontrivial')
        res.count('scale_cases')
        for le in (True, False):
            for off in (0, 1, 4):
                r0 = core.Result()
                one_case(r0, sig, ts, refvals, 'list', le, off)
                for s, v in r0.violations.items():
                    res.violation(s + '/n=%d' % n, v['what'][:300] + '...',
                                  {'scale': [kind, n, le, off]}, size=n)
                for k, c in r0.counts.items():
                    if k != 'violating_cases':
                        res.count(k, c)
    return res


def run(ctx):
    Kf, Kr = (3, 4) if ctx.quick else (4, 5)
    ctx.rule = (
        'every sequence of complete types with <= %d nodes over the full '
        'alphabet %r and <= %d nodes over the reduced alphabet %r (one code '
        'per alignment/size class), each with the full product of its '
        'boundary values when that has <= 24 elements and otherwise a '
        'covering family in which every boundary value of every position '
        'occurs; x presentation styles (list / tuple / dbusOrder object + '
        'pair lists + bytearray / wrapper classes) x both byte orders x '
        'offsets 0..7 behind 0xAA filler; plus deep/long families (32-deep '
        'arrays and structs, 255-byte signature) and descriptor cases; every '
        'non-trivial case once more for ownership (the receiver adds to '
        'every container it was given, the same bytes decode as before; '
        'encoding leaves the sender\'s values unchanged); plus '
        'arrays (of bytes, 16/64-bit integers, strings, structs, dict '
        'entries, arrays, variants) and strings with every element count / '
        'length of the ladder 127..257, 1023..1025, 4095..4097, 8191..8193 '
        '(thorough: 65534..65537). '
        'state = (signature, value assignment); transition = one marshal or '
        'unmarshal call; non-trivial = has a container, a variant or more '
        'than one argument' % (Kf, space.FULL, Kr, space.REDUCED))
    ctx.bounds = {'K_full': Kf, 'K_reduced': Kr,
                  'signature_sequences': CS.total_sequences(Kf, Kr)}
    ctx.assumptions = [
        'normalisation of decoded values is the one in the statement '
        '(tuples->lists, bytearray->ints, wrappers->plain, dict entries->dict)'
        '; doubles compare by bit pattern']
    ctx.map(_task, CS.partition(Kf, Kr, max(ctx.jobs * 4, 1)))
    ctx.map(_task_special, [0])
    ctx.map(_task_scale, [(ctx.quick, k) for k in SCALE_KINDS
                          + ['g', 'v-long-sig']])


def replay(data):
    res = core.Result()
    if 'scale' in data:
        kind, n, le, off = data['scale']
        sig, refvals = scale_values(kind, n)
        one_case(res, sig, R.parse_sig(sig), refvals, 'list', le, off)
        return [(s, v['what'][:300]) for s, v in res.violations.items()]
    ts = R.parse_sig(data['sig'])
    from mcx.refcodec import Var  # noqa: used by eval below
    nan = float('nan')
    inf = float('inf')
    refvals = eval(data['values'], {'Var': Var, 'nan': nan, 'inf': inf})
    if data['style'] == 'ownership':
        ownership_case(res, data['sig'], ts, refvals)
        return [(s, v['what']) for s, v in res.violations.items()]
    one_case(res, data['sig'], ts, refvals, data['style'], data['little'],
             data['offset'], fds='h' in data['sig'])
    return [(s, v['what']) for s, v in res.violations.items()]
