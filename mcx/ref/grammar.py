"""
Reference recognisers for the D-Bus name grammars ("Valid Object Paths" and
"Valid Names" in the specification).  Hand-written character loops; nothing
here is derived from txdbus.marshal's regular expressions.
"""

_LETTERS = 'ABCDEFGHIJKLMNOPQRSTUVWXYZabcdefghijklmnopqrstuvwxyz'
_DIGITS = '0123456789'


def _is_elem_char(ch, hyphen=False):
    return ch in _LETTERS or ch in _DIGITS or ch == '_' or (hyphen and ch == '-')


def _nbytes(s):
    return len(s.encode('utf-8', 'surrogatepass'))


def valid_object_path(p):
    if not p or p[0] != '/':
        return False
    if p == '/':
        return True
    for el in p[1:].split('/'):
        if not el:
            return False
        for ch in el:
            if not _is_elem_char(ch):
                return False
    return True


def _dotted(n, hyphen, digit_start_ok):
    if not n or _nbytes(n) > 255:
        return False
    elems = n.split('.')
    if len(elems) < 2:
        return False
    for el in elems:
        if not el:
            return False
        if el[0] in _DIGITS and not digit_start_ok:
            return False
        for ch in el:
            if not _is_elem_char(ch, hyphen):
                return False
    return True


def valid_interface_name(n):
    return _dotted(n, hyphen=False, digit_start_ok=False)


valid_error_name = valid_interface_name


def valid_bus_name(n):
    if n.startswith(':'):
        return _nbytes(n) <= 255 and _dotted(n[1:], hyphen=True,
                                             digit_start_ok=True)
    return _dotted(n, hyphen=True, digit_start_ok=False)


def valid_member_name(n):
    if not n or _nbytes(n) > 255:
        return False
    if n[0] in _DIGITS:
        return False
    for ch in n:
        if not _is_elem_char(ch):
            return False
    return True


VALIDATORS = {
    'validateObjectPath': valid_object_path,
    'validateInterfaceName': valid_interface_name,
    'validateErrorName': valid_error_name,
    'validateBusName': valid_bus_name,
    'validateMemberName': valid_member_name,
}
