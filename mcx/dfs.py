"""
Stateless depth-first exploration of complete executions (one real execution
per explored path), with a deviation bound - used where rebuilding the world
is expensive, so per-node replay (explore.py) would dominate.

run(prefix) must: build a fresh world, follow the choices in `prefix` (a list
of option indexes; an out-of-range choice is a harness error), then take
option 0 at every later choice point until no event is enabled, and return
    (taken, points, violations, info)
where taken is the full list of choices made, points[i] = list of deviation
costs of the options available at choice point i (len = number of options).
"""
import multiprocessing

from mcx import core


def subtree(run, prefix, used_dev, max_dev, res, limit=None):
    """explores every execution extending `prefix` (and differing from the
    default continuation only after it)"""
    stack = [(list(prefix), used_dev)]
    n = 0
    while stack:
        pre, dev0 = stack.pop()
        with core.Watchdog(120):
            try:
                taken, points, viol, info = run(pre)
            except core.ExecutionTimeout:
                res.violation('hang', 'execution with choices %r did not '
                              'finish' % (pre,), {'choices': pre},
                              size=len(pre))
                continue
        n += 1
        res.count('transitions', len(taken))
        res.count('traces')
        res.count('evaluations')
        res.setmax('max_depth', len(taken))
        if info.get('nontrivial'):
            res.count('nontrivial')
        if info.get('outcome') is not None:
            res.outcome(info['outcome'])
        for sig, what in viol:
            res.violation(sig, what, {'choices': taken,
                                      'params': info.get('params')},
                          size=len(taken))
        if n % 211 == 1 and info.get('sample') is not None:
            res.sample(info['sample'])
        # deviation cost accumulated along `taken`
        acc = []
        d = 0
        for i, c in enumerate(taken):
            acc.append(d)
            d += points[i][c]
        res.setmax('max_deviations', d)
        for i in range(len(pre), len(taken)):
            for alt in range(1, len(points[i])):
                nd = acc[i] + points[i][alt]
                if nd > max_dev:
                    continue
                stack.append((taken[:i] + [alt], nd))
        if limit and n >= limit:
            res.count('capped_subtrees')
            break
    res.count('states', n)
    return n


def _worker(task):
    runner_mod, runner_name, params, prefix, dev, max_dev, limit = task
    import importlib
    mod = importlib.import_module(runner_mod)
    run = getattr(mod, runner_name)(params)
    res = core.Result()
    subtree(run, prefix, dev, max_dev, res, limit)
    return res


def explore(ctx, runner_factory, params, max_dev, label, limit_per_task=None):
    """Root execution in the parent; every first-divergence subtree is a
    task for the pool."""
    run = runner_factory(params)
    taken, points, viol, info = run([])
    res = core.Result()
    res.count('states')
    res.count('traces')
    res.count('evaluations')
    res.count('transitions', len(taken))
    for sig, what in viol:
        res.violation(sig, what, {'choices': taken, 'params': params},
                      size=len(taken))
    if info.get('sample') is not None:
        res.sample(info['sample'])
    ctx.merge(res)
    tasks = []
    acc = []
    d = 0
    for i, c in enumerate(taken):
        acc.append(d)
        d += points[i][c]
    for i in range(len(taken)):
        for alt in range(1, len(points[i])):
            nd = acc[i] + points[i][alt]
            if nd <= max_dev:
                tasks.append((runner_factory.__module__,
                              runner_factory.__name__, params,
                              taken[:i] + [alt], nd, max_dev,
                              limit_per_task))
    before = dict(ctx.total.counts)
    ctx.map(_worker, tasks)
    n = ctx.total.counts.get('states', 0) - before.get('states', 0) + 1
    capped = ctx.total.counts.get('capped_subtrees', 0) - \
        before.get('capped_subtrees', 0)
    ctx.part(label, executions=n, max_deviations=max_dev, params=params,
             default_path_length=len(taken), capped_subtrees=capped)
    if capped:
        ctx.cap('%s: %d subtrees stopped at %d executions each'
                % (label, capped, limit_per_task))
    return n
