"""
Deterministic work meter: counts interpreter LINE events (sys.monitoring,
Python 3.12) while a library call runs and aborts it with BudgetExceeded when
a budget is passed.  Independent of machine speed.
"""
import sys
import tracemalloc


class BudgetExceeded(BaseException):
    pass


_mon = sys.monitoring
_TOOL = _mon.PROFILER_ID
_state = {'n': 0, 'budget': 0, 'on': False, 'peak': 0}


def trace_allocations():
    """From now on metered() also records the peak number of bytes the call
    had allocated at any one time (Python allocator, exact and repeatable);
    read it with last_peak()."""
    if not tracemalloc.is_tracing():
        tracemalloc.start(1)


def last_peak():
    return _state['peak']


def _on_line(code, line):
    s = _state
    s['n'] += 1
    if s['n'] > s['budget']:
        # stop counting first so that unwinding is not disturbed
        _mon.set_events(_TOOL, 0)
        raise BudgetExceeded(s['n'])


def _ensure():
    if not _state['on']:
        _mon.use_tool_id(_TOOL, 'mcx-meter')
        _mon.register_callback(_TOOL, _mon.events.LINE, _on_line)
        _state['on'] = True


def metered(func, budget):
    """Runs func(); returns (status, value, lines) with status in
    'ok' | 'exc' | 'budget'."""
    _ensure()
    _state['n'] = 0
    _state['budget'] = budget
    tracing = tracemalloc.is_tracing()
    if tracing:
        tracemalloc.reset_peak()
        base = tracemalloc.get_traced_memory()[0]
    _mon.set_events(_TOOL, _mon.events.LINE)
    try:
        v = func()
        st = 'ok'
    except BudgetExceeded:
        v = None
        st = 'budget'
    except Exception as e:
        v = e
        st = 'exc'
    finally:
        _mon.set_events(_TOOL, 0)
        _state['peak'] = tracemalloc.get_traced_memory()[1] - base \
            if tracing else 0
    return st, v, _state['n']


class CountingBytes(bytes):
    """bytes whose slices are counted: every slice taken from the input (and
    from slices of it) adds its length to a shared counter.  A third
    deterministic work meter next to line events and allocation peak: the
    bytes a decoder copies out of its input.  Code that does not slice
    (memoryview, struct.unpack_from) is simply not counted."""
    def __new__(cls, data, ctr=None):
        self = bytes.__new__(cls, data)
        self._ctr = ctr if ctr is not None else [0]
        return self

    def __getitem__(self, i):
        r = bytes.__getitem__(self, i)
        if isinstance(i, slice):
            self._ctr[0] += len(r)
            return CountingBytes(r, self._ctr)
        return r

    @property
    def copied(self):
        return self._ctr[0]
