"""
Command line entry:  ./check <ID> [--tier quick|thorough] [--replay f] [--jobs N]

exit 0  the property held on everything explored (KNOWN-FINDING lines allowed)
exit 1  a violation not listed in known_findings.txt; one line
        "VIOLATION property=<id> replay=<path>" per distinct signature
exit 2  the machinery itself failed (never a verdict about the library)
"""
import argparse
import importlib
import json
import os
import sys
import traceback

from mcx import core


def _bind_repo():
    repo = os.path.realpath(os.environ.get('VERIF_REPO', '/repo'))
    if sys.path[0] != repo:
        sys.path.insert(0, repo)
    import txdbus
    where = os.path.realpath(os.path.dirname(txdbus.__file__))
    if not where.startswith(repo + os.sep):
        raise core.HarnessError(
            'txdbus imported from %s, not from the working tree %s'
            % (where, repo))
    # quiet twisted's default log observer ("Unhandled error in Deferred"
    # for no-reply calls whose implementation fails is expected noise)
    try:
        from twisted.python import log
        if log.defaultObserver is not None:
            log.defaultObserver.stop()
            log.defaultObserver = None
        from twisted.logger import globalLogBeginner
        globalLogBeginner.beginLoggingTo([lambda event: None],
                                         redirectStandardIO=False,
                                         discardBuffer=True)
    except Exception:
        pass
    return repo


def main(argv=None):
    ap = argparse.ArgumentParser()
    ap.add_argument('prop')
    ap.add_argument('--tier', default=os.environ.get('VERIF_TIER', 'quick'),
                    choices=['quick', 'thorough'])
    ap.add_argument('--replay')
    ap.add_argument('--jobs', type=int,
                    default=int(os.environ.get('VERIF_JOBS', '0')) or
                    min(16, os.cpu_count() or 1))
    args = ap.parse_args(argv)
    seed = int(os.environ.get('VERIF_SEED', '0') or 0)
    prop = args.prop.upper()

    if os.environ.get('PYTHONHASHSEED') != '0':
        print('harness error: run through ./check (PYTHONHASHSEED=0)')
        return 2
    try:
        _bind_repo()
        mod = importlib.import_module('mcx.checks.' + prop.lower())
    except core.HarnessError as e:
        print('harness error: %s' % e)
        return 2
    except Exception:
        # the library no longer imports: that is a build failure of the tree
        # under test, reported as such
        traceback.print_exc()
        print('harness error: cannot import check or library')
        return 2

    if args.replay:
        with open(args.replay) as f:
            data = json.load(f)
        found = mod.replay(data['replay'])
        if found:
            for sig, what in found:
                print('  signature: %s' % sig)
                print('  what: %s' % (what,))
            print('VIOLATION property=%s replay=%s' % (prop, args.replay))
            return 1
        print('replay: property %s held on %s' % (prop, args.replay))
        return 0

    os.environ['VERIF_TIER_RUNNING'] = args.tier
    ctx = core.Ctx(prop, args.tier, seed, args.jobs)
    try:
        mod.run(ctx)
        return ctx.finish()
    except core.HarnessError as e:
        print('harness error: %s' % e)
        return 2
    except Exception:
        traceback.print_exc()
        print('harness error: unexpected exception in the check itself')
        return 2


if __name__ == '__main__':
    sys.exit(main())
