"""
Reference D-Bus codec, written from the D-Bus specification ("Type system",
"Marshaling (Wire Format)", "Message Protocol" sections) only.  It shares no
code, table or regular expression with txdbus.marshal / txdbus.message.

Types are a small AST:   (code, children)
    basic      ('y', ())            for y b n q i u x t d s o g h
    variant    ('v', ())
    array      ('a', (elem,))
    struct     ('(', (t1, t2, ...))
    dict entry ('{', (key, value))

Values:  ints / bools / floats / str; arrays are lists (an array of dict
entries may also be given as a dict and always decodes to a list of [k, v]
pairs - see `as_plain`); structs are lists; a variant is a `Var(sig, value)`.
"""
import struct

BASIC = 'ybnqiuxtdsogh'
FIXED = {            # code: (struct format char, size)
    'y': ('B', 1), 'b': ('I', 4), 'n': ('h', 2), 'q': ('H', 2),
    'i': ('i', 4), 'u': ('I', 4), 'x': ('q', 8), 't': ('Q', 8),
    'd': ('d', 8), 'h': ('I', 4),
}
# alignment straight from the table in the specification
ALIGN = {
    'y': 1, 'b': 4, 'n': 2, 'q': 2, 'i': 4, 'u': 4, 'x': 8, 't': 8, 'd': 8,
    's': 4, 'o': 4, 'g': 1, 'a': 4, '(': 8, 'v': 1, '{': 8, 'h': 4,
}
INT_RANGE = {
    'y': (0, 2**8 - 1), 'n': (-2**15, 2**15 - 1), 'q': (0, 2**16 - 1),
    'i': (-2**31, 2**31 - 1), 'u': (0, 2**32 - 1),
    'x': (-2**63, 2**63 - 1), 't': (0, 2**64 - 1), 'h': (0, 2**32 - 1),
}


class RefError(Exception):
    pass


class Var:
    """A variant value: the signature of the content and the content."""
    __slots__ = ('sig', 'value')

    def __init__(self, sig, value):
        self.sig = sig
        self.value = value

    def __repr__(self):
        return 'Var(%r, %r)' % (self.sig, self.value)

    def __eq__(self, other):
        return (isinstance(other, Var) and other.sig == self.sig
                and other.value == self.value)

    def __hash__(self):
        return hash(self.sig)


# ---------------------------------------------------------------------------
# signatures

def _parse_one(sig, i, adepth, sdepth):
    if i >= len(sig):
        raise RefError('truncated signature')
    c = sig[i]
    if c in BASIC:
        return (c, ()), i + 1
    if c == 'v':
        return ('v', ()), i + 1
    if c == 'a':
        if adepth + 1 > 32:
            raise RefError('array nesting > 32')
        if i + 1 < len(sig) and sig[i + 1] == '{':
            j = i + 2
            k, j = _parse_one(sig, j, adepth + 1, sdepth + 1)
            if k[0] not in BASIC:
                raise RefError('dict key must be a basic type')
            v, j = _parse_one(sig, j, adepth + 1, sdepth + 1)
            if j >= len(sig) or sig[j] != '}':
                raise RefError('dict entry must hold exactly two types')
            if sdepth + 1 > 32:
                raise RefError('struct nesting > 32')
            return ('a', (('{', (k, v)),)), j + 1
        e, j = _parse_one(sig, i + 1, adepth + 1, sdepth)
        return ('a', (e,)), j
    if c == '(':
        if sdepth + 1 > 32:
            raise RefError('struct nesting > 32')
        j = i + 1
        fields = []
        while True:
            if j >= len(sig):
                raise RefError('unterminated struct')
            if sig[j] == ')':
                break
            t, j = _parse_one(sig, j, adepth, sdepth + 1)
            fields.append(t)
        if not fields:
            raise RefError('empty struct')
        return ('(', tuple(fields)), j + 1
    raise RefError('bad type code %r' % c)


def parse_sig(sig):
    """signature string -> tuple of complete types; raises RefError if the
    string is not a valid signature."""
    if len(sig.encode('utf-8')) > 255:
        raise RefError('signature longer than 255')
    out = []
    i = 0
    while i < len(sig):
        t, i = _parse_one(sig, i, 0, 0)
        out.append(t)
    return tuple(out)


def to_sig(t):
    c, ch = t
    if c == 'a':
        return 'a' + to_sig(ch[0])
    if c == '(':
        return '(' + ''.join(to_sig(x) for x in ch) + ')'
    if c == '{':
        return '{' + to_sig(ch[0]) + to_sig(ch[1]) + '}'
    return c


def split_sig(sig):
    """Decomposition of a signature into its top-level complete types."""
    return [to_sig(t) for t in parse_sig(sig)]


def is_valid_sig(sig):
    try:
        parse_sig(sig)
        return True
    except RefError:
        return False


def single_type(sig):
    ts = parse_sig(sig)
    if len(ts) != 1:
        raise RefError('not a single complete type: %r' % sig)
    return ts[0]


# ---------------------------------------------------------------------------
# encoding

def _pad(n, align):
    return (-n) % align


def _valid_path(p):
    if not p or p[0] != '/':
        return False
    if p == '/':
        return True
    for el in p[1:].split('/'):
        if not el:
            return False
        for ch in el:
            if not (ch.isascii() and (ch.isalnum() or ch == '_')):
                return False
    return True


class _Enc:
    def __init__(self, offset, little, fds=None):
        self.buf = bytearray()
        self.base = offset
        self.e = '<' if little else '>'
        self.fds = fds

    @property
    def pos(self):
        return self.base + len(self.buf)

    def align(self, a):
        self.buf += b'\0' * _pad(self.pos, a)

    def put(self, t, v):
        c, ch = t
        self.align(ALIGN[c])
        if c in FIXED:
            fmt, _ = FIXED[c]
            if c == 'b':
                v = 1 if v else 0
            elif c == 'd':
                v = float(v)
            elif c == 'h' and self.fds is not None:
                self.fds.append(v)
                v = len(self.fds) - 1
            else:
                lo, hi = INT_RANGE[c]
                if not (lo <= v <= hi):
                    raise RefError('%r out of range for %s' % (v, c))
            self.buf += struct.pack(self.e + fmt, v)
        elif c in 'so':
            if c == 'o' and not _valid_path(v):
                raise RefError('invalid object path %r' % (v,))
            b = v.encode('utf-8')
            if b'\0' in b:
                raise RefError('NUL in string')
            self.buf += struct.pack(self.e + 'I', len(b)) + b + b'\0'
        elif c == 'g':
            b = v.encode('ascii')
            if len(b) > 255:
                raise RefError('signature too long')
            self.buf += bytes([len(b)]) + b + b'\0'
        elif c == 'v':
            vt = single_type(v.sig)
            self.put(('g', ()), v.sig)
            self.put(vt, v.value)
        elif c == 'a':
            et = ch[0]
            if isinstance(v, dict):
                v = [[k, x] for k, x in v.items()]
            lenpos = len(self.buf)
            self.buf += b'\0\0\0\0'
            self.align(ALIGN[et[0]])          # not counted in the length
            start = len(self.buf)
            for item in v:
                self.put(et, item)
            n = len(self.buf) - start
            if n > 2**26:
                raise RefError('array too long')
            self.buf[lenpos:lenpos + 4] = struct.pack(self.e + 'I', n)
        elif c in '({':
            if len(v) != len(ch):
                raise RefError('struct arity')
            for ft, fv in zip(ch, v):
                self.put(ft, fv)
        else:
            raise RefError('bad type')


def encode(sig, values, offset=0, little=True, fds=None):
    """bytes of `values` under signature `sig` when the first byte is written
    at message offset `offset` (includes any leading alignment padding)."""
    types = parse_sig(sig) if isinstance(sig, str) else sig
    if len(types) != len(values):
        raise RefError('arity')
    e = _Enc(offset, little, fds)
    for t, v in zip(types, values):
        e.put(t, v)
    return bytes(e.buf)


# ---------------------------------------------------------------------------
# decoding (strict: anything the specification forbids raises RefError)

class _Dec:
    def __init__(self, data, offset, little, fds=None, strict=True):
        self.d = data
        self.p = offset
        self.e = '<' if little else '>'
        self.fds = fds
        self.strict = strict

    def need(self, n):
        if self.p + n > len(self.d):
            raise RefError('truncated at %d (+%d)' % (self.p, n))

    def align(self, a):
        n = _pad(self.p, a)
        self.need(n)
        if self.strict and any(self.d[self.p:self.p + n]):
            raise RefError('non-zero padding at %d' % self.p)
        self.p += n

    def get(self, t, depth=0):
        if depth > 64:
            raise RefError('nesting too deep')
        c, ch = t
        self.align(ALIGN[c])
        if c in FIXED:
            fmt, size = FIXED[c]
            self.need(size)
            v = struct.unpack_from(self.e + fmt, self.d, self.p)[0]
            self.p += size
            if c == 'b':
                if v not in (0, 1):
                    raise RefError('boolean %d' % v)
                v = bool(v)
            elif c == 'h' and self.fds is not None:
                if v >= len(self.fds):
                    raise RefError('fd index out of range')
                v = self.fds[v]
            return v
        if c in 'so':
            self.need(4)
            n = struct.unpack_from(self.e + 'I', self.d, self.p)[0]
            self.p += 4
            self.need(n + 1)
            raw = bytes(self.d[self.p:self.p + n])
            if self.d[self.p + n] != 0:
                raise RefError('string not NUL terminated')
            self.p += n + 1
            if b'\0' in raw:
                raise RefError('embedded NUL')
            try:
                s = raw.decode('utf-8')
            except UnicodeDecodeError:
                raise RefError('string is not UTF-8')
            if c == 'o' and not _valid_path(s):
                raise RefError('invalid object path %r' % s)
            return s
        if c == 'g':
            self.need(1)
            n = self.d[self.p]
            self.p += 1
            self.need(n + 1)
            raw = bytes(self.d[self.p:self.p + n])
            if self.d[self.p + n] != 0:
                raise RefError('signature not NUL terminated')
            self.p += n + 1
            try:
                s = raw.decode('ascii')
            except UnicodeDecodeError:
                raise RefError('signature not ASCII')
            parse_sig(s)
            return s
        if c == 'v':
            s = self.get(('g', ()))
            vt = single_type(s)
            return Var(s, self.get(vt, depth + 1))
        if c == 'a':
            self.need(4)
            n = struct.unpack_from(self.e + 'I', self.d, self.p)[0]
            self.p += 4
            if n > 2**26:
                raise RefError('array length %d' % n)
            et = ch[0]
            self.align(ALIGN[et[0]])
            end = self.p + n
            if end > len(self.d):
                raise RefError('array runs past the end')
            out = []
            while self.p < end:
                out.append(self.get(et, depth + 1))
            if self.p != end:
                raise RefError('array length does not match elements')
            return out
        if c in '({':
            return [self.get(ft, depth + 1) for ft in ch]
        raise RefError('bad type')


def decode(sig, data, offset=0, little=True, fds=None, strict=True):
    types = parse_sig(sig) if isinstance(sig, str) else sig
    d = _Dec(data, offset, little, fds, strict)
    vals = [d.get(t) for t in types]
    return vals, d.p


# ---------------------------------------------------------------------------
# value helpers

def as_plain(types, values):
    """Reference value -> the plain Python value the property says a decoder
    hands out: variants unwrapped, arrays of dict entries as dict, structs as
    lists."""
    return [_plain(t, v) for t, v in zip(types, values)]


def _plain(t, v):
    c, ch = t
    if c == 'v':
        return _plain(single_type(v.sig), v.value)
    if c == 'a':
        et = ch[0]
        if isinstance(v, dict):
            v = [[k, x] for k, x in v.items()]
        if et[0] == '{':
            return {_hashable(_plain(et[1][0], k)): _plain(et[1][1], x)
                    for k, x in v}
        return [_plain(et, x) for x in v]
    if c in '({':
        return [_plain(ft, fv) for ft, fv in zip(ch, v)]
    return v


def _hashable(k):
    return k


def same(a, b):
    """Equality that compares doubles by bit pattern (NaN == NaN, 0.0 != -0.0)
    and is otherwise Python equality, recursively."""
    if isinstance(a, float) or isinstance(b, float):
        if not (isinstance(a, (float, int)) and isinstance(b, (float, int))):
            return False
        if isinstance(a, bool) or isinstance(b, bool):
            return False
        try:
            return struct.pack('<d', a) == struct.pack('<d', b)
        except (OverflowError, struct.error):
            return False
    if isinstance(a, (list, tuple)) and isinstance(b, (list, tuple)):
        return len(a) == len(b) and all(same(x, y) for x, y in zip(a, b))
    if isinstance(a, dict) and isinstance(b, dict):
        if len(a) != len(b):
            return False
        bkeys = {x: x for x in b}     # equal value -> the key object b holds
        for k, v in a.items():
            if isinstance(k, float) and k != k:
                # NaN key: find by bit pattern
                hit = [x for kk, x in b.items() if same(k, kk)]
                if len(hit) != 1 or not same(v, hit[0]):
                    return False
                continue
            if k not in b or not same(v, b[k]):
                return False
            # the key itself must be the same kind of thing (-0.0 vs 0.0)
            kk = bkeys[k]
            if not same(k, kk):
                return False
        return True
    if isinstance(a, (list, tuple, dict)) != isinstance(b, (list, tuple, dict)):
        return False
    return a == b


# ---------------------------------------------------------------------------
# messages

HEADER_FIELDS = {   # code: (name, signature of the variant content)
    1: ('path', 'o'), 2: ('interface', 's'), 3: ('member', 's'),
    4: ('error_name', 's'), 5: ('reply_serial', 'u'), 6: ('destination', 's'),
    7: ('sender', 's'), 8: ('signature', 'g'), 9: ('unix_fds', 'u'),
}
FIELD_CODE = {v[0]: k for k, v in HEADER_FIELDS.items()}
REQUIRED = {
    1: ('path', 'member'),
    2: ('reply_serial',),
    3: ('error_name', 'reply_serial'),
    4: ('path', 'interface', 'member'),
}
METHOD_CALL, METHOD_RETURN, ERROR, SIGNAL = 1, 2, 3, 4
_HDR = parse_sig('yyyyuua(yv)')


def encode_message(mtype, serial, fields, body_sig='', body=(), little=True,
                   flags=0, version=1, field_order=None, extra_fields=(),
                   fds=None):
    """Bytes of a message as a spec-conforming peer would write it.
    `fields` is a dict name -> value (signature is added from body_sig);
    `field_order` optionally a list of names fixing the order;
    `extra_fields` a list of (code, Var) of unknown header fields."""
    f = dict(fields)
    body_bytes = b''
    nfds = []
    if body_sig:
        f['signature'] = body_sig
        body_bytes = encode(body_sig, list(body), 0, little,
                            nfds if fds is None else fds)
    names = list(field_order) if field_order else list(f)
    for n in f:
        if n not in names:
            names.append(n)
    arr = []
    for n in names:
        code = FIELD_CODE[n]
        arr.append([code, Var(HEADER_FIELDS[code][1], f[n])])
    for pos, code, var in extra_fields:
        arr.insert(pos, [code, var])
    hdr = encode(_HDR, [ord('l') if little else ord('B'), mtype, flags,
                        version, len(body_bytes), serial, arr], 0, little)
    hdr += b'\0' * _pad(len(hdr), 8)
    return hdr + body_bytes


def parse_message(raw, fds=None, strict=True):
    """Strict parse of one complete message; returns a dict.  Raises RefError
    for anything malformed per the specification."""
    if len(raw) < 16:
        raise RefError('shorter than the fixed header')
    if raw[0] == ord('l'):
        little = True
    elif raw[0] == ord('B'):
        little = False
    else:
        raise RefError('bad endian byte %r' % raw[0])
    (vals, p) = decode(_HDR, raw, 0, little, strict=strict)
    _, mtype, flags, version, blen, serial, arr = vals
    if version != 1:
        raise RefError('protocol version %d' % version)
    if serial == 0:
        raise RefError('serial is zero')
    pad = _pad(p, 8)
    if len(raw) < p + pad:
        raise RefError('header padding missing')
    if strict and any(raw[p:p + pad]):
        raise RefError('header padding not zero')
    body = raw[p + pad:]
    if len(body) != blen:
        raise RefError('body length field %d, actual %d' % (blen, len(body)))
    if len(raw) > 2**27:
        raise RefError('message longer than 2**27')
    out = {'little': little, 'type': mtype, 'flags': flags, 'serial': serial,
           'fields': {}, 'unknown_fields': [], 'field_order': [],
           'header_len': p, 'raw_body': body}
    for code, var in arr:
        if code in HEADER_FIELDS:
            name, sig = HEADER_FIELDS[code]
            if var.sig != sig:
                raise RefError('header field %s has type %r, must be %r'
                               % (name, var.sig, sig))
            if name in out['fields']:
                raise RefError('header field %s twice' % name)
            out['fields'][name] = var.value
            out['field_order'].append(name)
        else:
            if code == 0:
                raise RefError('header field code 0')
            out['unknown_fields'].append((code, var))
    for name in REQUIRED.get(mtype, ()):
        if name not in out['fields']:
            raise RefError('required header field %s missing' % name)
    sig = out['fields'].get('signature', '')
    types = parse_sig(sig)
    nf = out['fields'].get('unix_fds', 0)
    fdl = None
    if fds is not None:
        fdl = list(fds[:nf])
    vals, q = decode(types, body, 0, little, fdl, strict=strict)
    if q != len(body):
        raise RefError('body has %d trailing bytes' % (len(body) - q))
    out['body_sig'] = sig
    out['body'] = vals
    out['body_plain'] = as_plain(types, vals)
    return out


def split_stream(data):
    """Cuts a byte stream of concatenated messages into messages using the
    fixed header (reference framing)."""
    out = []
    p = 0
    while p < len(data):
        if len(data) - p < 16:
            raise RefError('trailing partial header')
        e = '<' if data[p] == ord('l') else '>'
        blen = struct.unpack_from(e + 'I', data, p + 4)[0]
        alen = struct.unpack_from(e + 'I', data, p + 12)[0]
        n = 16 + alen
        n += _pad(n, 8)
        n += blen
        if p + n > len(data):
            raise RefError('trailing partial message')
        out.append(bytes(data[p:p + n]))
        p += n
    return out
