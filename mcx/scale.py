"""
Counts around the places where code commonly starts treating "many"
differently from "few": one-byte and two-byte limits, page and buffer sizes.
Every count the library keeps (elements, bytes, messages built, rules,
connections, descriptors, cache entries) is walked up such a ladder by the
checks, as the non-initial states from which their small scenarios are run
again.

Nothing in here names anything private to the library.
"""

LADDER_SMALL = [127, 128, 129, 254, 255, 256, 257]
LADDER_PAGE = [1023, 1024, 1025, 4095, 4096, 4097, 8191, 8192, 8193]
LADDER_WORD = [65534, 65535, 65536, 65537]


def ladder(top):
    """all ladder counts <= top"""
    return [n for n in LADDER_SMALL + LADDER_PAGE + LADDER_WORD if n <= top]


def build_messages(n):
    """Age the process by n constructed messages (the serial counter is
    process-wide and advances with every message built)."""
    from txdbus import message
    for _ in range(n):
        message.SignalMessage('/mcx/age', 'Tick', 'org.mcx.Age')


def steps_to(target, have):
    """ladder distances from `have` messages built so far"""
    return max(target - have, 0)
