#!/usr/bin/env python3
"""prep_wave.py <prefix letter, e.g. G>: creates scratch worktrees /tmp/wt/<L>NN of /repo HEAD and prompt files
for a further wave of independent sub-agents (each gets only the property text, the list of changes already
used for that property, and its worktree)."""
import json, os, subprocess, sys
L = sys.argv[1]
HERE = os.path.dirname(os.path.dirname(os.path.abspath(__file__)))
prev = json.load(open(os.path.join(HERE, 'seeded', 'PREVIOUS.json')))
os.makedirs('/tmp/wt', exist_ok=True)
if not os.path.exists('/tmp/wt/baseline.py'):
    subprocess.check_call(['cp', os.path.join(HERE, 'tools', 'baseline.py'), '/tmp/wt/baseline.py'])
tmpl = open(os.path.join(HERE, 'seeded', 'PROMPT.tmpl')).read()
for l in open(os.path.join(HERE, 'properties.jsonl')):
    d = json.loads(l)
    pid = d['id']; wid = L + pid[1:]
    prop = "Property %s: %s\n\nStatement: %s\n\nQuantified over: %s\n\nCode it is anchored in: %s\n" % (
        pid, d['title'], d['statement'], d['quantifier']['text'],
        '; '.join('%s (%s)' % (m.get('name'), m.get('where')) for m in d['anchors']['mechanism']))
    open('/tmp/wt/%s.property.txt' % wid, 'w').write(prop)
    subprocess.run(['git', '-C', '/repo', 'worktree', 'remove', '--force', '/tmp/wt/' + wid], stderr=subprocess.DEVNULL)
    subprocess.check_call(['git', '-C', '/repo', 'worktree', 'add', '-q', '--detach', '/tmp/wt/' + wid, 'HEAD'])
    extra = "\n\nIMPORTANT - earlier rounds for this property already used the following changes, so do NOT repeat any of them or a close variant; pick a different function / mechanism / clause of the property statement:\n"
    extra += ''.join('   - %s\n' % p for p in prev[pid])
    extra += ("Do NOT use `git stash` (the stash is shared between worktrees of this repository and other jobs use it concurrently); to run demo.py on the original "
              "code use `git diff -- txdbus > patch.diff; git apply -R patch.diff; <run>; git apply patch.diff`. If the baseline shows a single failure in "
              "tests.test_authentication.ServerObjectTester, re-run it: those tests listen on one fixed socket and collide with other jobs.\n")
    steer = os.environ.get('WAVE_STEER')
    if steer:
        extra += steer + "\n"
    else:
      extra += ("The harness being tested already copes with those. Aim for something it is less likely to anticipate: a bug that needs THREE or more steps "
              "or two cooperating code sites to show; state surviving where it should be reset (or reset where it should survive), including state kept on a class or module "
              "and therefore shared by objects that should be independent; an interaction between two features; values at exact boundaries; a rarely-taken branch "
              "(error paths, flags, cancel / unexport / release / disconnect paths, byte-at-a-time delivery, big-endian peers). It must still be a plausible developer "
              "mistake and must keep the 164 baseline tests green.\n")
    p = tmpl.replace('@ID@', wid).replace('@PROP@', prop).replace('\nTASK:', extra + '\nTASK:')
    open('/tmp/wt/%s.prompt.txt' % wid, 'w').write(p)
print('prepared wave', L)
