#!/venv/bin/python
"""Runs the repository's pinned test-suite in a tree (default /repo) with the
verification guard OFF and compares with /root/.vp/BASELINE.json: every
stable_pass test must pass.  Exit 0 iff so."""
import json, os, subprocess, sys, tempfile
import xml.etree.ElementTree as ET

repo = sys.argv[1] if len(sys.argv) > 1 else '/repo'
base = json.load(open('/root/.vp/BASELINE.json'))
fd, out = tempfile.mkstemp(suffix='.xml'); os.close(fd)
env = dict(os.environ); env.pop('TXDBUS_VERIF', None)
env['PYTHONDONTWRITEBYTECODE'] = '1'
env['PYTHONPATH'] = repo
p = subprocess.run(['/venv/bin/python', '-m', 'pytest', '-ra', '-q', '-p', 'no:cacheprovider',
                    '--timeout=900', '--continue-on-collection-errors', '--junitxml=' + out],
                   cwd=repo, env=env, stdout=subprocess.PIPE, stderr=subprocess.STDOUT, text=True)
passed = set()
for tc in ET.parse(out).getroot().iter('testcase'):
    ok = not any(ch.tag in ('failure', 'error', 'skipped') for ch in tc)
    if ok:
        passed.add('%s::%s' % (tc.get('classname'), tc.get('name')))
os.unlink(out)
missing = [t for t in base['stable_pass'] if t not in passed]
print('baseline: %d/%d stable tests pass in %s' % (len(base['stable_pass']) - len(missing), len(base['stable_pass']), repo))
for m in missing:
    print('  NOT PASSING:', m)
if missing:
    print(p.stdout[-3000:])
sys.exit(1 if missing else 0)
