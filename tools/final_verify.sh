#!/bin/bash
# final_verify.sh: every seeded change and reverted fix against the check of its own property (2 shards) and
# every property-preserving refactoring against every check (3 shards), concurrently, on scratch clones.
cd "$(dirname "$0")/.."
mkdir -p findings/final
python3 tools/matrix.py --checks own --shard 0/2 --out findings/final/matrix0.json > findings/final/matrix0.log 2>&1 &
python3 tools/matrix.py --checks own --shard 1/2 --out findings/final/matrix1.json > findings/final/matrix1.log 2>&1 &
python3 tools/neutral.py $NEUTRAL_ARGS --shard 0/3 --out findings/final/neutral0.json > findings/final/neutral0.log 2>&1 &
python3 tools/neutral.py $NEUTRAL_ARGS --shard 1/3 --out findings/final/neutral1.json > findings/final/neutral1.log 2>&1 &
python3 tools/neutral.py $NEUTRAL_ARGS --shard 2/3 --out findings/final/neutral2.json > findings/final/neutral2.log 2>&1 &
if [ "$1" = "thorough" ]; then
  bash tools/runall.sh thorough > findings/final/thorough.log 2>&1 &
fi
wait
echo "== missed"; grep -h "missed" findings/final/matrix*.log
echo "== does not apply"; grep -h "DOES NOT APPLY" findings/final/*.log
echo "== alarms"; grep -h "ALARM" -A1 findings/final/neutral*.log
echo "== thorough"; cat findings/final/thorough.log 2>/dev/null | cut -c1-200
echo "== done"
