#!/bin/bash
# final_verify.sh: phase 1 - every property-preserving refactoring against the checks that drive the code it
# touches (4 shards; NEUTRAL_ARGS=--relevant, empty for all x all); phase 2 - the thorough tier of every check
# on the clean tree; phase 3 - every seeded change and reverted fix against the check of its own property
# (4 shards).  Everything on scratch clones.
cd "$(dirname "$0")/.."
mkdir -p findings/final
NEUTRAL_ARGS=${NEUTRAL_ARGS---relevant}
for i in 0 1 2 3; do
  python3 tools/neutral.py $NEUTRAL_ARGS --shard $i/4 --out findings/final/neutral$i.json > findings/final/neutral$i.log 2>&1 &
done
wait
echo "== does not apply"; grep -h "DOES NOT APPLY" findings/final/*.log
echo "== alarms"; grep -h "ALARM" -A1 findings/final/neutral*.log
echo "== phase 1 done $(date)"
bash tools/runall.sh thorough > findings/final/thorough.log 2>&1
echo "== thorough"; cat findings/final/thorough.log | cut -c1-200
echo "== phase 2 done $(date)"
for i in 0 1 2 3; do
  python3 tools/matrix.py --checks own --shard $i/4 --out findings/final/matrix$i.json > findings/final/matrix$i.log 2>&1 &
done
wait
echo "== missed"; grep -h "missed" findings/final/matrix*.log
echo "== does not apply"; grep -h "DOES NOT APPLY" findings/final/matrix*.log
echo "== done $(date)"
