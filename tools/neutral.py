#!/usr/bin/env python3
"""neutral.py [--patches substr,...] [--checks C01,...]: applies every property-PRESERVING refactoring
(neutral/<id>/patch.diff) to a scratch clone of /repo and runs ALL checks (quick) against it.  Any VIOLATION is
a false alarm candidate: either the refactoring is not neutral after all (look at the replay) or the check
demands more than the property states."""
import argparse, glob, json, os, re, shutil, subprocess, sys, tempfile, time
HERE = os.path.dirname(os.path.dirname(os.path.abspath(__file__)))
ap = argparse.ArgumentParser()
ap.add_argument('--patches', default='')
ap.add_argument('--checks', default='')
ap.add_argument('--out', default=os.path.join(HERE, 'findings', 'neutral_matrix.json'))
ap.add_argument('--shard', default='')   # i/n: every n-th patch starting at i
a = ap.parse_args()
ALL = ['C%02d' % i for i in range(1, 21)]
checks = a.checks.split(',') if a.checks else ALL
patches = sorted(glob.glob(os.path.join(HERE, 'neutral', '*', 'patch.diff')))
if a.patches:
    patches = [p for p in patches if any(k in p for k in a.patches.split(','))]
if a.shard:
    _i, _n = map(int, a.shard.split('/'))
    patches = patches[_i::_n]
scratch = tempfile.mkdtemp(prefix='mcx-neutral-')
repo = os.path.join(scratch, 'repo')
subprocess.check_call(['git', 'clone', '-q', '/repo', repo])
result = json.load(open(a.out)) if os.path.exists(a.out) else {}
try:
    for patch in patches:
        name = os.path.basename(os.path.dirname(patch))
        subprocess.check_call(['git', '-C', repo, 'checkout', '-q', '--', '.'])
        r = subprocess.run(['git', '-C', repo, 'apply', patch], stderr=subprocess.PIPE, text=True)
        if r.returncode:
            print('%-8s PATCH DOES NOT APPLY: %s' % (name, r.stderr.strip()[:100])); continue
        b = subprocess.run([os.path.join(HERE, 'tools', 'baseline.py'), repo], stdout=subprocess.PIPE, text=True)
        row = result.setdefault(name, {})
        row['baseline'] = b.returncode == 0
        for c in checks:
            env = dict(os.environ, VERIF_REPO=repo)
            p = subprocess.run([os.path.join(HERE, 'check'), c], env=env, stdout=subprocess.PIPE,
                               stderr=subprocess.STDOUT, text=True)
            sigs = re.findall(r'signature: (.*)', p.stdout)[:4]
            whats = re.findall(r'what: (.*)', p.stdout)[:2]
            row[c] = {'rc': p.returncode, 'signatures': sigs}
            if p.returncode != 0:
                print('%-8s %s ALARM rc=%d %s\n          %s' % (name, c, p.returncode, '; '.join(sigs)[:200],
                                                               ' | '.join(w[:300] for w in whats)))
                sys.stdout.flush()
        print('%-8s baseline=%s alarms=%s' % (name, row['baseline'], [c for c in checks if row[c]['rc'] != 0]))
        sys.stdout.flush()
        json.dump(result, open(a.out, 'w'), indent=1, sort_keys=True)
finally:
    shutil.rmtree(scratch, ignore_errors=True)
