#!/usr/bin/env python3
"""neutral.py [--patches substr,...] [--checks C01,...]: applies every property-PRESERVING refactoring
(neutral/<id>/patch.diff) to a scratch clone of /repo and runs ALL checks (quick) against it.  Any VIOLATION is
a false alarm candidate: either the refactoring is not neutral after all (look at the replay) or the check
demands more than the property states."""
import argparse, glob, json, os, re, shutil, subprocess, sys, tempfile, time
HERE = os.path.dirname(os.path.dirname(os.path.abspath(__file__)))
ap = argparse.ArgumentParser()
ap.add_argument('--patches', default='')
ap.add_argument('--checks', default='')
ap.add_argument('--out', default=os.path.join(HERE, 'findings', 'neutral_matrix.json'))
ap.add_argument('--relevant', action='store_true')   # only the checks whose code a patch touches
ap.add_argument('--shard', default='')   # i/n: every n-th patch starting at i
a = ap.parse_args()
ALL = ['C%02d' % i for i in range(1, 21)]
# which checks drive the code of which module hard enough to notice a change in it
RELEVANT = {
 'marshal': ['C01', 'C02', 'C03', 'C05', 'C18', 'C19', 'C20'],
 'message': ['C02', 'C03', 'C04', 'C05', 'C08', 'C10', 'C14', 'C18', 'C20'],
 'protocol': ['C02', 'C04', 'C05', 'C06', 'C07', 'C20'],
 'authentication': ['C06', 'C07', 'C09'],
 'client': ['C08', 'C09', 'C11', 'C12', 'C13'],
 'objects': ['C09', 'C10', 'C11', 'C12', 'C15', 'C16', 'C17'],
 'bus': ['C02', 'C03', 'C05', 'C11', 'C13', 'C14'],
 'router': ['C12', 'C14'],
 'interface': ['C15', 'C17', 'C19', 'C10'],
 'introspection': ['C11', 'C15', 'C16'],
 'endpoints': ['C09'],
 'error': ['C08', 'C10', 'C13'],
}
checks = a.checks.split(',') if a.checks else ALL
patches = sorted(glob.glob(os.path.join(HERE, 'neutral', '*', 'patch.diff')))
if a.patches:
    patches = [p for p in patches if any(k in p for k in a.patches.split(','))]
if a.shard:
    _i, _n = map(int, a.shard.split('/'))
    patches = patches[_i::_n]
scratch = tempfile.mkdtemp(prefix='mcx-neutral-')
repo = os.path.join(scratch, 'repo')
subprocess.check_call(['git', 'clone', '-q', '/repo', repo])
result = json.load(open(a.out)) if os.path.exists(a.out) else {}
try:
    for patch in patches:
        name = os.path.basename(os.path.dirname(patch))
        subprocess.check_call(['git', '-C', repo, 'checkout', '-q', '--', '.'])
        r = subprocess.run(['git', '-C', repo, 'apply', patch], stderr=subprocess.PIPE, text=True)
        if r.returncode:
            print('%-8s PATCH DOES NOT APPLY: %s' % (name, r.stderr.strip()[:100])); continue
        b = subprocess.run([os.path.join(HERE, 'tools', 'baseline.py'), repo], stdout=subprocess.PIPE, text=True)
        row = result.setdefault(name, {})
        row['baseline'] = b.returncode == 0
        run_checks = checks
        if a.relevant:
            touched = set(re.findall(r'^\+\+\+ b/txdbus/(\w+)\.py', open(patch).read(), re.M))
            rel = {name[:3]}
            for f in touched:
                rel |= set(RELEVANT.get(f, ALL))
            run_checks = [c for c in checks if c in rel]
        for c in run_checks:
            env = dict(os.environ, VERIF_REPO=repo)
            p = subprocess.run([os.path.join(HERE, 'check'), c], env=env, stdout=subprocess.PIPE,
                               stderr=subprocess.STDOUT, text=True)
            sigs = re.findall(r'signature: (.*)', p.stdout)[:4]
            whats = re.findall(r'what: (.*)', p.stdout)[:2]
            row[c] = {'rc': p.returncode, 'signatures': sigs}
            if p.returncode != 0:
                print('%-8s %s ALARM rc=%d %s\n          %s' % (name, c, p.returncode, '; '.join(sigs)[:200],
                                                               ' | '.join(w[:300] for w in whats)))
                sys.stdout.flush()
        print('%-8s baseline=%s checks=%d alarms=%s' % (name, row['baseline'], len(run_checks), [c for c in run_checks if row[c]['rc'] != 0]))
        sys.stdout.flush()
        json.dump(result, open(a.out, 'w'), indent=1, sort_keys=True)
finally:
    shutil.rmtree(scratch, ignore_errors=True)
