#!/venv/bin/python
"""collect_seed.py <src dir> <seed name> <property id>
Verifies a sub-agent's seeded change in a scratch worktree of /repo HEAD and, if all three
conditions hold (baseline passes with it; demo fails with it; demo passes without it),
stores it as /verif/seeded/<seed name>/{patch.diff,demo.py,NOTES.md,meta.json}."""
import json, os, shutil, subprocess, sys
src, name, prop = sys.argv[1:4]
wt = '/tmp/wt/verify-%s' % name
def sh(cmd, **kw):
    return subprocess.run(cmd, shell=True, stdout=subprocess.PIPE, stderr=subprocess.STDOUT, text=True, **kw)
sh('git -C /repo worktree remove --force %s' % wt)
r = sh('git -C /repo worktree add -q --detach %s HEAD' % wt); assert r.returncode == 0, r.stdout
head = sh('git -C /repo rev-parse --short HEAD').stdout.strip()
try:
    shutil.copy(os.path.join(src, 'demo.py'), wt + '/demo.py')
    env = 'cd %s && PYTHONDONTWRITEBYTECODE=1 PYTHONPATH=%s timeout 300 /venv/bin/python demo.py' % (wt, wt)
    clean = sh(env)
    r = sh('git -C %s apply %s' % (wt, os.path.join(src, 'patch.diff')))
    if r.returncode: print('PATCH DOES NOT APPLY', r.stdout); sys.exit(1)
    base = sh('/verif/tools/baseline.py %s' % wt)
    bad = sh(env)
    ok = base.returncode == 0 and bad.returncode != 0 and clean.returncode == 0
    print('%s: baseline_with_patch=%s demo_with_patch_rc=%s demo_clean_rc=%s => %s' % (
        name, 'pass' if base.returncode == 0 else 'FAIL', bad.returncode, clean.returncode, 'KEEP' if ok else 'REJECT'))
    if not ok:
        print(base.stdout[-500:], bad.stdout[-500:], clean.stdout[-500:]); sys.exit(1)
    dst = '/verif/seeded/%s' % name
    os.makedirs(dst, exist_ok=True)
    for f in ('patch.diff', 'demo.py', 'NOTES.md'):
        shutil.copy(os.path.join(src, f), os.path.join(dst, f))
    notes = open(os.path.join(src, 'NOTES.md')).read()
    json.dump({'property': prop, 'seed': name, 'repo_head_when_verified': head,
               'origin': 'independent sub-agent given only the property text and a scratch worktree',
               'needs_to_manifest': 'see NOTES.md',
               'verified': {'baseline_with_patch': 'pass (164/164)',
                            'demo_with_patch': 'fails rc=%d: %s' % (bad.returncode, bad.stdout.strip().splitlines()[-1][:300] if bad.stdout.strip() else ''),
                            'demo_without_patch': 'passes rc=0'},
               'commands': ['git -C <worktree> apply patch.diff', '/verif/tools/baseline.py <worktree>',
                            'PYTHONPATH=<worktree> /venv/bin/python demo.py (with and without patch)']},
              open(os.path.join(dst, 'meta.json'), 'w'), indent=1)
finally:
    sh('git -C /repo worktree remove --force %s' % wt)
