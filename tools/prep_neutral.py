#!/usr/bin/env python3
"""prep_neutral.py <prefix letter>: worktrees + prompts for sub-agents that write property-PRESERVING refactorings."""
import json, os, subprocess, sys
L = sys.argv[1]
HERE = os.path.dirname(os.path.dirname(os.path.abspath(__file__)))
os.makedirs('/tmp/wt', exist_ok=True)
subprocess.check_call(['cp', os.path.join(HERE, 'tools', 'baseline.py'), '/tmp/wt/baseline.py'])
tmpl = open(os.path.join(HERE, 'seeded', 'PROMPT_NEUTRAL.tmpl')).read()
for l in open(os.path.join(HERE, 'properties.jsonl')):
    d = json.loads(l)
    pid = d['id']; wid = L + pid[1:]
    prop = "Property %s: %s\n\nStatement: %s\n\nQuantified over: %s\n\nCode it is anchored in: %s\n" % (
        pid, d['title'], d['statement'], d['quantifier']['text'],
        '; '.join('%s (%s)' % (m.get('name'), m.get('where')) for m in d['anchors']['mechanism']))
    subprocess.run(['git', '-C', '/repo', 'worktree', 'remove', '--force', '/tmp/wt/' + wid], stderr=subprocess.DEVNULL)
    subprocess.check_call(['git', '-C', '/repo', 'worktree', 'add', '-q', '--detach', '/tmp/wt/' + wid, 'HEAD'])
    extra = ''
    prior = sorted(d for d in os.listdir(os.path.join(HERE, 'neutral')) if d.startswith(pid))
    if prior:
        extra = "\n\nEarlier rounds already produced the refactorings summarised below for this property; do something DIFFERENT (other functions, or a different kind of restructuring of the same ones):\n"
        for pr in prior:
            notes = open(os.path.join(HERE, 'neutral', pr, 'NOTES.md')).read().splitlines()
            extra += ''.join('   | %s\n' % ln for ln in notes[:14])
    steer = os.environ.get('NEUTRAL_STEER')
    if steer:
        extra += '\n' + steer + '\n'
    open('/tmp/wt/%s.prompt.txt' % wid, 'w').write(tmpl.replace('@ID@', wid).replace('@PROP@', prop).replace('\nTASK:', extra + '\nTASK:'))
print('prepared neutral wave', L)
