#!/usr/bin/env python3
"""matrix.py [--checks C01,C02,...|own|all] [--patches glob,...] [--tier quick] [--out file]
Applies every seeded change (seeded/*/patch.diff) and every reverted fix (findings/reverts/*.diff) to a
SCRATCH copy of /repo (never /repo itself), runs the selected checks against it and records which detect it.
'own' = only the checks of the property the change was written against (plus those listed for reverts)."""
import argparse, glob, json, os, re, shutil, subprocess, sys, tempfile, time

HERE = os.path.dirname(os.path.dirname(os.path.abspath(__file__)))
ap = argparse.ArgumentParser()
ap.add_argument('--checks', default='own')
ap.add_argument('--patches', default='')
ap.add_argument('--tier', default='quick')
ap.add_argument('--out', default=os.path.join(HERE, 'findings', 'detection_matrix.json'))
ap.add_argument('--shard', default='')   # i/n: every n-th patch starting at i
a = ap.parse_args()

ALL = ['C%02d' % i for i in range(1, 21)]
REVERT_PROPS = {}
for l in open(os.path.join(HERE, 'known_findings.txt')):
    m = re.match(r'fixed: property=(C\d+) (\w+) .*reverts/(F\d+)-', l)
    if m:
        REVERT_PROPS.setdefault(m.group(3), []).append(m.group(1))

patches = []
for d in sorted(glob.glob(os.path.join(HERE, 'seeded', '*'))):
    p = os.path.join(d, 'patch.diff')
    if os.path.exists(p):
        meta = json.load(open(os.path.join(d, 'meta.json')))
        patches.append((os.path.basename(d), p, [meta['property']]))
for p in sorted(glob.glob(os.path.join(HERE, 'findings', 'reverts', '*.diff'))):
    name = os.path.basename(p)[:-5]
    patches.append((name, p, REVERT_PROPS.get(name.split('-')[0], [])))
if a.patches:
    keep = a.patches.split(',')
    patches = [x for x in patches if any(k in x[0] for k in keep)]

if a.shard:
    _i, _n = map(int, a.shard.split('/'))
    patches = patches[_i::_n]
scratch = tempfile.mkdtemp(prefix='mcx-matrix-')
repo = os.path.join(scratch, 'repo')
src = os.environ.get('MATRIX_SRC', '/repo')
subprocess.check_call(['git', 'clone', '-q', src, repo])
result = {}
if os.path.exists(a.out):
    try:
        result = json.load(open(a.out))
    except Exception:
        result = {}
try:
    for name, patch, own in patches:
        subprocess.check_call(['git', '-C', repo, 'checkout', '-q', '--', '.'])
        r = subprocess.run(['git', '-C', repo, 'apply', patch], stderr=subprocess.PIPE, text=True)
        if r.returncode:
            print('%-14s PATCH DOES NOT APPLY: %s' % (name, r.stderr.strip()[:100])); continue
        checks = ALL if a.checks == 'all' else own if a.checks == 'own' else a.checks.split(',')
        row = result.setdefault(name, {})
        for c in checks:
            env = dict(os.environ, VERIF_REPO=repo)
            t0 = time.time()
            p = subprocess.run([os.path.join(HERE, 'check'), c, '--tier', a.tier], env=env,
                               stdout=subprocess.PIPE, stderr=subprocess.STDOUT, text=True)
            det = p.returncode == 1 and ('VIOLATION property=%s' % c) in p.stdout
            sigs = re.findall(r'signature: (.*)', p.stdout)[:3]
            row[c] = {'detected': det, 'rc': p.returncode, 'signatures': sigs, 'tier': a.tier,
                      'wall_s': round(time.time() - t0, 1)}
            print('%-14s %s %-8s rc=%d %s' % (name, c, 'DETECTED' if det else 'missed', p.returncode,
                                              '; '.join(sigs)[:150]))
            sys.stdout.flush()
        json.dump(result, open(a.out, 'w'), indent=1, sort_keys=True)
finally:
    shutil.rmtree(scratch, ignore_errors=True)
