#!/bin/bash
# runall.sh [tier] : runs every check on the current tree; prints one line per check; exit 1 if any is not clean
tier=${1:-quick}
cd /verif
rc=0
for i in 01 02 03 04 05 06 07 08 09 10 11 12 13 14 15 16 17 18 19 20; do
  s=$(date +%s.%N)
  out=$(./check C$i --tier $tier 2>&1); r=$?
  e=$(date +%s.%N)
  printf "C%s rc=%d %.1fs %s\n" $i $r $(echo "$e - $s" | bc) "$(echo "$out" | tail -1 | cut -c1-160)"
  [ $r -ne 0 ] && { rc=1; echo "$out" | grep -E "VIOLATION|signature|harness" | head -5; }
done
exit $rc
