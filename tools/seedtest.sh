#!/bin/bash
# seedtest.sh <patch.diff> <check ids...> : apply a seeded change to /repo, run the named checks (quick), undo.
# prints one line per check: DETECTED / MISSED
patch="$1"; shift
cd /repo || exit 2
if ! git diff --quiet; then echo "repo dirty"; exit 2; fi
git apply "$patch" || { echo "patch does not apply: $patch"; exit 2; }
for id in "$@"; do
  out=$(cd /verif && timeout 1500 ./check "$id" ${TIER:+--tier $TIER} 2>&1); rc=$?
  if [ $rc -eq 1 ] && echo "$out" | grep -q "^VIOLATION property=$id"; then
     echo "DETECTED $id rc=$rc $(echo "$out" | grep -c '^VIOLATION') signature(s): $(echo "$out" | grep 'signature:' | head -3 | tr '\n' ' ')"
  else
     echo "MISSED   $id rc=$rc :: $(echo "$out" | tail -2 | tr '\n' ' ')"
  fi
done
git -C /repo checkout -- .
