#!/usr/bin/env python3
"""Writes /verif/MANIFEST.json from the table below (so that it always
validates and stays in step with the checks that exist)."""
import json, os

HERE = os.path.dirname(os.path.dirname(os.path.abspath(__file__)))

E1 = 'E1-input-enumeration'
E2 = 'E2-history-explorer'

CHECKS = {
 'C01': dict(engine=E1, ref='DESIGN.md 3/C01', technique='bounded-exhaustive enumeration of the signature grammar x boundary values x byte order x offset, round trip executed on the real marshal/unmarshal',
   text='Every signature sequence up to the node bound (full type alphabet) and a larger bound over a reduced alphabet, with boundary values, four presentation styles, both byte orders and all 8 start offsets, is encoded and decoded by the real code; encoder length, decoder consumption and value identity are checked on every case. Exhaustive within the bound; nothing is sampled.',
   note='Holds for the enumerated bound only (types <= K nodes plus fixed deep/long families). Trusts mcx/refcodec.as_plain for the normalisation the statement names.'),
 'C02': dict(engine=E1, ref='DESIGN.md 3/C02', technique='bounded-exhaustive enumeration compared byte-for-byte with an independent reference codec, both directions',
   text='Same space as C01; the library bytes must equal the bytes of a reference encoder written from the specification, and the reference bytes (including variants of types the library never infers) must decode to the value; plus every (type code, offset) pair of the alignment rule.',
   note='Trusts mcx/refcodec.py as a reading of the specification; bound as C01.'),
 'C18': dict(engine=E1, ref='DESIGN.md 3/C18', technique='exhaustive enumeration of all strings up to length 6 over a character-class alphabet against hand-written grammar recognisers',
   text='All 1.1 million strings of length <= 6 over one representative per character class are given to the five validators twice (in both orders, so cross-validator caches show) and compared with recognisers written from the specification; the 255-byte boundary; every string of length <= 3 (4 thorough) in each of the 11 name-carrying constructor slots with the wire content re-read by the reference parser.',
   note='Character classes are represented by one member each; longer names only at the length boundary. Trusts mcx/ref/grammar.py.'),
 'C03': dict(engine=E1, ref='DESIGN.md 3/C03', technique='bounded-exhaustive enumeration of message descriptions; every message checked by an independent parser and re-parsed; foreign encodings enumerated over byte order, header-field permutations and unknown field positions',
   text='All combinations of message type, optional header fields, flag bits, 30 bodies covering every alignment and every header padding 0..7 are constructed; an independent parser checks well-formedness (typed fields, flags byte, padding, body length, fresh serial) and parseMessage must recover everything, both from its own bytes and from the bytes a conforming foreign encoder produces (both byte orders, permuted fields, unknown field codes at every position). The 2**27 limit is probed with real messages at -1/0/+1/+8 bytes.',
   note='Bodies are a fixed list of 30 (the full value space is C01/C02). Trusts mcx/refcodec message encoder/parser.'),
 'C05': dict(engine=E1, ref='DESIGN.md 3/C05', technique='exhaustive mutation enumeration (truncations, byte substitutions, lying length words, all short hostile signatures) under a deterministic interpreter-step budget',
   text='Every truncation, every position x substitution set, every aligned length word x lying values of 12 base messages, every string of length <= 4 (6 thorough) over the container alphabet as body signature and as variant signature against 6 hostile bodies, plus zero-size-element, deep-nesting and large lying-length families, are parsed by parseMessage and delivered to BasicDBusProtocol under a line-event budget affine in the input length; exceeding it, MemoryError, or a result larger than the input is a violation.',
   note='Decides "bounded work" as "within 600000+100*len interpreter line events"; the constant covers the bracket matcher, which is quadratic in the (<=255 byte) signature. Which exception is raised is not compared.'),
 'C19': dict(engine=E1, ref='DESIGN.md 3/C19', technique='exhaustive enumeration of signatures from the grammar with their decomposition; exhaustive enumeration of Python values to depth 2 filtered by a reference claim predicate',
   text='Every signature sequence up to the node bound is generated together with its decomposition and compared with genCompleteTypes and the argument counts of Method/Signal; every Python value of depth <= 2, width <= 2 over 30 atoms (plain values and wrapper classes at range boundaries) inside the claim must get a single complete type, wrappers exactly theirs, and survive a variant round trip that the reference decoder can also read.',
   note='ref_type() in mcx/checks/c19.py states which values are inside the claim (first-element rule). Depth 3 only over a small pool (thorough).'),
}

REASON_TODO = 'check not built yet in this snapshot (planned in DESIGN.md section 3); nothing is claimed for it'

def main():
    props = [json.loads(l)['id'] for l in open(os.path.join(HERE, 'properties.jsonl'))]
    checks = []
    for pid in props:
        if pid not in CHECKS or not os.path.exists(os.path.join(HERE, 'mcx', 'checks', pid.lower() + '.py')):
            continue
        c = CHECKS[pid]
        checks.append({
            'property_id': pid,
            'quick_cmd': './check %s --tier quick' % pid,
            'thorough_cmd': './check %s --tier thorough' % pid,
            'evidence_file': '/verif/evidence/%s.json' % pid,
            'replay_cmd_template': './check %s --replay {path}' % pid,
            'engine': c['engine'],
            'level_claimed': {'category': 'model_checking', 'text': c['text'], 'design_ref': c['ref']},
            'level_note': c['note'],
            'technique': c['technique'],
        })
    claimed = {c['property_id'] for c in checks}
    na = [{'property_id': p, 'reason': REASON_TODO} for p in props if p not in claimed]
    man = {
        'version': 1,
        'setup_cmd': '/venv/bin/python -c "import twisted, zope.interface; print(\'ok\')"',
        'hooks': {
            'guard': 'TXDBUS_VERIF',
            'enable': 'no source hooks exist: every seam is reached from outside (fake transports, virtual clock, module attributes patched in the checker process). ./check exports TXDBUS_VERIF=1 for form.',
            'baseline_off_cmd': 'cd /repo && env -u TXDBUS_VERIF /venv/bin/python -m pytest -ra -q -p no:cacheprovider --timeout=900 --continue-on-collection-errors',
            'source_commits': [],
            'add_only': True,
        },
        'engines': [
            {'name': E1, 'path': 'mcx/space.py', 'serves_properties': [p for p in claimed if CHECKS[p]['engine'] == E1],
             'kind_free_text': 'bounded-exhaustive enumeration of an input grammar; one-step transition system (input -> library call) against a reference model'},
            {'name': E2, 'path': 'mcx/explore.py', 'serves_properties': [p for p in claimed if CHECKS[p]['engine'] == E2],
             'kind_free_text': 'explicit-state / stateless exploration of event histories on the real protocol objects (fake transport, virtual clock), replay-based, state-deduplicated'},
        ],
        'checks': checks,
        'not_applicable': na,
        'notes': 'All checks run the working tree of /repo through ./check (PYTHONPATH=/repo first, bytecode writing off). Known findings: known_findings.txt. Seeded changes used to test the checks: seeded/.',
    }
    json.dump(man, open(os.path.join(HERE, 'MANIFEST.json'), 'w'), indent=1)
    print('claimed:', sorted(claimed), 'not claimed:', len(na))

if __name__ == '__main__':
    main()
