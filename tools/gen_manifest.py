#!/usr/bin/env python3
"""Writes /verif/MANIFEST.json from the table below (so that it always
validates and stays in step with the checks that exist)."""
import json, os

HERE = os.path.dirname(os.path.dirname(os.path.abspath(__file__)))

E1 = 'E1-input-enumeration'
E2 = 'E2-history-explorer'

CHECKS = {
 'C01': dict(engine=E1, ref='DESIGN.md 3/C01', technique='bounded-exhaustive enumeration of the signature grammar x boundary values x byte order x offset, round trip executed on the real marshal/unmarshal',
   text='Every signature sequence up to the node bound (full type alphabet) and a larger bound over a reduced alphabet, with boundary values, four presentation styles, both byte orders and all 8 start offsets, is encoded and decoded by the real code; encoder length, decoder consumption and value identity are checked on every case. Exhaustive within the bound; nothing is sampled. The first uses of every multi-type signature in a process are ones that fail half-way (an unencodable value at each position, truncated bytes, an abandoned split). Descriptor cases include one descriptor referenced several times, adjacent and not.',
   note='Holds for the enumerated bound only (types <= K nodes plus fixed deep/long families). Trusts mcx/refcodec.as_plain for the normalisation the statement names.'),
 'C02': dict(engine=E1, ref='DESIGN.md 3/C02', technique='bounded-exhaustive enumeration compared byte-for-byte with an independent reference codec, both directions',
   text='Same space as C01; the library bytes must equal the bytes of a reference encoder written from the specification, and the reference bytes (including variants of types the library never infers) must decode to the value; plus every (type code, offset) pair of the alignment rule. 46 bodies are also checked inside whole messages: built by the library, and after a trip through the built-in bus in either byte order (body bytes = the typed encoding in the byte order the header announces). Sequences of calls (with and without descriptor arguments) issued one after the other through one connection are each read by the reference parser: the encoding of a call is a function of that call alone. Reference encodings with a descriptor inside a variant (which the library cannot send but must read).',
   note='Trusts mcx/refcodec.py as a reading of the specification; bound as C01.'),
 'C18': dict(engine=E1, ref='DESIGN.md 3/C18', technique='exhaustive enumeration of all strings up to length 6 over a character-class alphabet against hand-written grammar recognisers',
   text='All 1.1 million strings of length <= 6 over one representative per character class are given to the five validators twice (in both orders, so cross-validator caches show) and compared with recognisers written from the specification; the 255-byte boundary; every string of length <= 3 (4 thorough) in each of the 11 name-carrying constructor slots with the wire content re-read by the reference parser. Nine prefixes the library itself generates or knows (org.txdbus.PythonException., org.freedesktop.DBus.Error., :1., ...) followed by every string of length <= 2 (3 thorough) over the extended alphabet and by long / non-ASCII identifiers. Invalid interface names are tried again after an interface of that name was declared locally.',
   note='Character classes are represented by one member each; longer names only at the length boundary. Trusts mcx/ref/grammar.py.'),
 'C03': dict(engine=E1, ref='DESIGN.md 3/C03', technique='bounded-exhaustive enumeration of message descriptions; every message checked by an independent parser and re-parsed; foreign encodings enumerated over byte order, header-field permutations and unknown field positions',
   text='All combinations of message type, optional header fields, flag bits, 30 bodies covering every alignment and every header padding 0..7 are constructed; an independent parser checks well-formedness (typed fields, flags byte, padding, body length, fresh serial) and parseMessage must recover everything, both from its own bytes and from the bytes a conforming foreign encoder produces (both byte orders, permuted fields, unknown field codes at every position); a parsed message serialised again must be the same well-formed message; every ordered triple of descriptor-carrying calls built in one process. The 2**27 limit is probed with real messages at -1/0/+1/+8 bytes for every header padding. Every name slot of every message type (with and without the optional fields) is given 6-13 strings the reference grammar rejects: construction must fail with a marshalling error. Every foreign encoding (both byte orders) is also parsed and serialised again, as the bus does when it stamps the sender, and must still be the same well-formed message. Every constructed and every foreign message (both byte orders) also makes a trip through the real built-in bus and must arrive as the same well-formed message with only the sender stamped; invalid names include every one-character mutation of a valid name that the reference grammar rejects. Messages constructed while another message is being constructed (25 combinations of outer / inner type) all get fresh serials. Returns, errors and signals arrive with every combination of the flag bits (other implementations set them).',
   note='Bodies are a fixed list of 30 (the full value space is C01/C02). Trusts mcx/refcodec message encoder/parser.'),
 'C05': dict(engine=E1, ref='DESIGN.md 3/C05', technique='exhaustive mutation enumeration (truncations, byte substitutions, lying length words, all short hostile signatures) under a deterministic interpreter-step budget',
   text='Every truncation, every position x substitution set, every aligned length word x lying values of 12 base messages, every string of length <= 4 (6 thorough) over the container alphabet as body signature and as variant signature against 6 hostile bodies, plus zero-size-element, deep-nesting, sibling-container, back-reference / negative-length and large lying-length families (every element type), are parsed by parseMessage and delivered to BasicDBusProtocol under a line-event budget affine in the input length; exceeding it, MemoryError, or a result larger than the input is a violation. Header fields repeated m times in front of an m-element body (every field code, an unknown one) and growing bodies of 7 container shapes are measured at m and 4m: the work at 4m must stay within 5x the work at m. The peak number of bytes allocated at one time during each decode (tracemalloc) must stay within 4 MB + 200 x len. RecursionError counts as unbounded recursion; every input that holds complete messages is delivered once more with a handler that re-enters the protocol with an empty read. A real client of the library on the built-in bus must keep receiving the signals its rule matches after another peer sent each of 1900 mutated messages (every value of the byte-order flag, substitutions in the fixed header) through the bus.',
   note='Decides "bounded work" as "within 600000+100*len interpreter line events, 4 MB + 200*len bytes allocated at a time, and work(4m) <= 5*work(m) on growing families"; the constant covers the bracket matcher, which is quadratic in the (<=255 byte) signature. Which exception is raised is not compared.'),
 'C19': dict(engine=E1, ref='DESIGN.md 3/C19', technique='exhaustive enumeration of signatures from the grammar with their decomposition; exhaustive enumeration of Python values to depth 2 filtered by a reference claim predicate',
   text='Every signature sequence up to the node bound is generated together with its decomposition and compared with genCompleteTypes and the argument counts of Method/Signal; every Python value of depth <= 2, width <= 2 over 30 atoms (plain values and wrapper classes at range boundaries) inside the claim must get a single complete type, wrappers exactly theirs, and survive a variant round trip that the reference decoder can also read. Values whose inferred signature or Signature payload is 126..255 characters long go through the same variant round trip. After an attempt to send the same container object with an unsendable element in it has failed, the repaired object is judged again like a first attempt.',
   note='ref_type() in mcx/checks/c19.py states which values are inside the claim (first-element rule). Depth 3 only over a small pool (thorough).'),
 'C04': dict(engine=E2, ref='DESIGN.md 3/C04', technique='stateless exploration: exhaustive enumeration of read segmentations (cut sets up to a deviation bound) of enumerated message streams, each executed on a fresh real protocol object',
   text='Every stream of 1-2 (and a slice of 3) messages from a pool mixing both byte orders, all four types and CR/LF-laden content is delivered under no cut, every single cut, byte-at-a-time and every pair of cuts near boundaries (anywhere, plus triples, when thorough); the same messages joined to the last handshake bytes for the server and both client roles; two connections in one process with every interleaving of their (cut) reads; 3000 (20000) coalesced messages. The callback sequence must equal the sent sequence. Nested reads: the handler of message j reads the rest of the stream itself (every pair and a slice of the triples, every single cut behind message j). Messages carrying descriptors whose first bytes share the read that completes the handshake, the descriptors announced before it.',
   note='Bound: <= 2 cuts quick / 3 thorough; pool of 10 messages. Reads are non-empty chunks.'),
 'C06': dict(engine=E2, ref='DESIGN.md 3/C06', technique='explicit-state BFS to a fixpoint over authentication line sequences on the real server protocol, step-compared with a reference server state machine; enumerated real-mechanism conversations; differential cut enumeration',
   text='For each effective mechanism script the full reachable state space of (protocol state, script position, rejection count) is explored over an alphabet of 14 lines + 4 malformed ones and every reply and the authenticated flag are compared with the specification state machine; the real EXTERNAL/COOKIE/ANONYMOUS mechanisms are driven by a conforming reference client with right, 7 wrong shapes of, and cancelled responses; 2-3 connections running cookie exchanges against one keyring with all interleavings of their steps (explicit-state); first byte, 16 KiB limit, and every single cut of every 2-line (3 thorough) conversation must not change the transcript. The same search runs over the real EXTERNAL / ANONYMOUS / DBUS_COOKIE_SHA1 mechanisms (11 lines, wrong cookie response), with the mechanisms\' own bookkeeping in the canonical state. BEGIN followed in the same read by 10-70 kB of pipelined messages authenticates and delivers them.',
   note='Peer credentials come from a fake socket; user lookups use the real pwd database; keyring in a scratch directory.'),
 'C07': dict(engine=E2, ref='DESIGN.md 3/C07', technique='explicit-state BFS to a fixpoint over server line sequences on the real client protocol with constraint oracles S1-S5; exhaustive handshakes against a reference server under every single cut',
   text='The complete reachable state space of the client authenticator under 14 server lines x {UNIX, non-UNIX} is explored and every step checked against: BEGIN/binary only after a valid OK and an answered descriptor negotiation, AUTH lines a prefix of the preference order, next mechanism or close after REJECTED/ERROR, a new AUTH only after REJECTED/ERROR, close on lines outside the protocol, no stall; every line sequence up to length 2 (3) delivered coalesced and byte-wise must behave as line by line. 84 reference-server configurations (mechanism subsets x negotiation answers x EXTERNAL variants x transports) must complete, also with each server line cut at every position, with a stale cookie id, and over consecutive connections with a rotated cookie. OK lines with several hexadecimal tokens (space- or tab-separated, two GUIDs) are outside the protocol. The reference server may challenge EXTERNAL for data before refusing it.',
   note='~/.dbus-keyrings is redirected to a scratch keyring by wrapping the os module seen by txdbus.authentication; os.urandom is fixed.'),
 'C08': dict(engine=E2, ref='DESIGN.md 3/C08', technique='explicit-state BFS with deduplication over interleavings of issue/reply/error/expiry/unsolicited/loss events on a real client connection with a virtual clock, against a reference call table',
   text='For 8 (10 thorough) call configurations (deadline order, declared return signature, reply and error shapes, no-reply calls) every interleaving of the events of 2-3 (4 thorough) concurrent calls is explored; after every event each Deferred must have fired exactly as the reference table says, the armed timers must equal the outstanding deadlines, and running the clock out plus late replies must change nothing. Every second reply and error arrives big-endian. A call message sent again (callRemoteMessage) from inside the handler of its previous answer, chains of 1-2 re-uses, return / error, with and without deadline. Two configurations are explored again with a disconnect callback that issues one more call (with a deadline) while the loss is processed. 2-3 answers in one read with a handler that calls disconnect(): answers that had arrived complete their calls with their own content.',
   note='Calls are issued in index order. Replies are real bytes through dataReceived.'),
 'C09': dict(engine=E2, ref='DESIGN.md 3/C09', technique='crash-point enumeration of connect() on a memory reactor; explicit-state BFS over calls/callbacks/proxies with connection loss injected in every reachable state',
   text='Every address list up to 3 entries x every reachability vector x the transport closing after each server step of three conversation variants: attempt order and exactly-once firing of the connect Deferred; every list connected to twice with one reactor. For an established connection, all orders (to depth 4 for the full alphabet; to the fixpoint for the proxy and the call/callback sub-alphabets) of calls with/without deadlines, callback registration/cancellation, explicit/known-name/introspected proxies (two for one object, dropped ones) followed by the loss in every state. The same callable registered twice / one registration of it cancelled is part of the event alphabet (connection and proxy). Hello is also refused with an error reply that has no body / whose first value is not a string; a call answered by a body-less error reply before the loss is part of the loss alphabet. A conversation in which the first two mechanisms are refused with the list of supported mechanisms and the third accepted is part of the crash-point enumeration. A disconnect callback that itself issues a call with a deadline is part of the loss alphabet. Six seconds may pass before the loss (one deadline expires). Unreachable addresses fail in five ways (refused, unresolvable host, no route, timed out, generic).',
   note='Loss arrives as connectionLost(ConnectionDone); a dropped proxy is not live.'),
 'C13': dict(engine=E2, ref='DESIGN.md 3/C13', technique='explicit-state BFS to a fixpoint on a real Bus with scripted raw clients, step-compared with a reference name table, table read back through the bus after every step',
   text='(state = reference table + digest of every library object) All histories of RequestName (8 flag values), ReleaseName and disconnect by 3 clients on 1 name are explored to the fixpoint (and 2 clients x 2 names to depth 4; 4 clients / 3 clients x 2 names when thorough); after every step the reply code, the NameAcquired recipients and GetNameOwner / ListQueuedOwners for every name are compared with the reference table. The same table is driven through the client API (requestBusName with six flag / errback combinations, releaseBusName, getNameOwner, listQueuedBusNameOwners) of three real clients on a real bus. One exploration has a client that never says Hello. One exploration lets the clients also add and remove a match rule.',
   note='Where a replaced owner goes is left open (adopted from the bus); NameLost / NameOwnerChanged not compared.'),
 'C20': dict(engine=E2, ref='DESIGN.md 3/C20', technique='stateless exploration: exhaustive enumeration of interleavings of descriptor arrivals and reads (under cut sets) on the real receiver; exhaustive call sequences on the real sender',
   text='Every sequence of up to 3 calls over 9 bodies is sent through callRemote and the transport log compared (descriptors in argument order ahead of the bytes, declared count, indexes). The same sequences, reference-encoded in both byte orders, are delivered under no cut / every single cut (pairs when thorough) (as calls and as returns / signals / errors) in every order of descriptor arrivals and reads a stream socket allows; a trailing probe message shows exactly the declared count was consumed. Three received-only bodies hold descriptors inside variants (v, a{sv}h, hav). Schedules in which the first descriptors arrive before the read that completes the handshake (BEGIN alone or in one read with message bytes). Three bodies carry descriptors that are attached and declared but not referenced by the body.',
   note='Descriptors are plain integers on a fake transport; arrival model is the statement\'s.'),
 'C10': dict(engine=E2, ref='DESIGN.md 3/C10', technique='bounded-exhaustive enumeration of call histories (every ordered pair from a call pool, 4 export orders) on freshly built object classes; enumerated firing orders of held Deferreds; reference dispatcher',
   text='A pool of several hundred incoming calls (right/wrong path, interface, member, signature, reply flag; dbus_ and decorator bindings, one member on two interfaces, base/derived classes binding members of one interface, dbusCaller) is delivered as real bytes: every single call under 4 export orders and every ordered pair; replies are parsed by the reference parser and compared with a reference dispatcher (who runs, how often, reply count, addressing, serial, encoding, error names). Two held Deferreds are fired in both orders with value / failure / unencodable value. A composed run (real caller, real bus, real exporter) issues calls with all four combinations of the no-reply and no-auto-start flags and counts the replies on the wire. Two calls in three carry a header field with an unknown code at varying positions; one in three has the no-auto-start bit set. Two connections in one process with their own exports (a call is dispatched among the objects of the connection it arrived on).',
   note='History length 2. With no interface header any declaring interface may be chosen.'),
 'C11': dict(engine=E2, ref='DESIGN.md 3/C11', technique='stateless depth-first exploration of all delivery interleavings (plus bounded cuts) of the composed bus + clients system, one real execution per path',
   text='A real Bus with 2-3 (4 thorough) real client connections joined by byte queues is brought up with real authentication, Hello, export, RequestName and proxy acquisition (explicit interface or introspection); then for 8 (10) scenarios of 2-3 concurrent proxy calls every delivery order of the queued chunks and every firing point of held Deferreds, plus up to 1 (2) cut inside a chunk, is executed and the results compared with what the exported methods returned or raised. Proxies are also obtained from lists of interface names in both orders with each subset of the names unknown locally (9 modes). A read joining a chunk with a prefix of the chunk behind it is a further deviation. In two scenarios a big-endian peer written with another library calls every exporter once before the measured calls. The exported class is two levels deep, with decorated members of one interface on both levels.',
   note='One chunk per transport write; all parties in one process.'),
 'C12': dict(engine=E1, ref='DESIGN.md 3/C12', technique='exhaustive enumeration of rule x message pairs against an independent matcher; explicit-state BFS over add/remove/route histories; rule-text round trip through an independent parser and the built-in bus',
   text='Every rule with up to 3 (all 9 thorough) constraint keys, two values each, against ~1500 messages through the real router; BFS over addMatch/delMatch/signal histories on a real client connection (callbacks that raise, id reuse); the AddMatch text of every rule with up to 2 (3) keys parsed independently and fed to the built-in bus whose broadcasts must follow the matcher; proxy notifyOnSignal/cancelSignalNotification with matching and mismatching signatures. One argument constraint (exact string and path) at every index 0..63 is checked through the router, the rule text and the built-in bus. Argument-path rules and arguments where both end in \'/\' and either is a prefix of the other are part of every family. Every history (length <= 4, 5 thorough) of subscribe / cancel / signal over three proxies on two connections of one process. The proxy histories include cancelling the same subscription twice before the bus answered and two proxies with identical rule text, against a harness that keeps the bus\'s multiset of rules. AddMatch refused by the bus is part of the history alphabet (nothing may stay registered).',
   note='sender / arg0namespace constraints are outside the statement.'),
 'C14': dict(engine=E2, ref='DESIGN.md 3/C14', technique='explicit-state BFS over send / consume (whole or prefix) / name-takeover / match-rule / disconnect events on a real Bus with scripted raw clients against a reference bus',
   text='Three raw clients (state = reference bus + digest of every library object); name take-over, queueing and release; 12 message templates (all types, every destination kind, forged / true / absent sender, flag bits); outbound queues let the bus consume messages in every order relative to ownership changes, rule changes and a disconnect, whole or prefix-first. Every arriving message is parsed by the strict reference parser and compared with the reference bus. A second search covers connect/disconnect histories for fresh unique names. A further search runs bus-addressed messages of all four types under catch-all rules (empty rule, type=\'method_call\', destination=\'org.freedesktop.DBus\'); a client\'s own calls to the bus must show up nowhere else. Message bodies carry typed variant contents (u, o, y, a struct) that must arrive as sent; the head message may be consumed together with a prefix of the next. A further search lets all three clients contend for the name (take-over by a client already waiting behind another). One exploration has a client that never says Hello.',
   note='Depth 4 quick / 6 thorough; >= 1 copy demanded for broadcasts.'),
 'C15': dict(engine=E1, ref='DESIGN.md 3/C15', technique='bounded-exhaustive enumeration of interface definitions; XML checked by an independent parser and the reference signature splitter; parse-back comparison; proxy acceptance',
   text='Every (in, out) pair of a pool of 40 (more thorough) signature sequences as a method, every signal, every property type x access x notification, fuller interfaces, and objects with 2-3 interfaces in every order x every subset registered locally x replace flag (each parsed repeatedly in one process, registry checked), and definitions built incrementally (add / re-declare / delete) with the XML read after every step. A three-level class hierarchy (each level adding an interface) and a plain DBusObject are introspected in all 24 orders. Every fifth definition is parsed after local declarations under the same name failed part-way. Interface names that are prefixes, substrings or extensions of the standard interface names.',
   note='Notification mode after parsing not compared.'),
 'C16': dict(engine=E2, ref='DESIGN.md 3/C16', technique='explicit-state BFS over export/unexport histories (all 128 exported sets reached; plus undeduplicated histories), every path queried after every step',
   text='After every export/unexport over a 7-path universe with prefix-sharing siblings, each path and two outsiders are queried with real call bytes (ordinary call, Introspect, GetManagedObjects) and compared with the set-theoretic reference; each event must announce itself with exactly one InterfacesAdded/Removed. A second pass adds the event \'export another object at an occupied path\'. A third pass exports the same instance again after it was unexported. A fourth pass attempts an export at an occupied path that fails while the announcement is built: the path stays exported and listed. A fifth pass exports plain application objects through an IDBusObject adapter.',
   note='Export only of unexported paths, unexport only of exported ones.'),
 'C17': dict(engine=E2, ref='DESIGN.md 3/C17', technique='explicit-state BFS over local assignments and remote Set calls on two objects (base/derived, same-named property on two interfaces), full read-back through Get/GetAll after every step against a reference store',
   text='12 property declarations over 3 interfaces on three objects (two instances of the base class, one read before assigned, and a derived one); values include foreign typed wrappers; every assignment and every Set (right / empty / other interface name, unknown property) to depth 2 (3), both class initialisation orders; after every event the Set reply, the PropertiesChanged signals and the whole table read back through GetAll and Get under right / empty / unknown interface names. Interface names that are a proper prefix or an extension of a declared one must behave as unknown in Get and GetAll. One write-only notifying property of two objects is left unassigned until after the export, so that its first assignment ever (local or by Set) is an explored event. String values are non-ASCII. Properties assigned in a subclass constructor before the base constructor runs must be what Get returns. A mis-declared sibling class failing first must not disturb the correctly declared one (one shared interface name); two correctly declared classes sharing a by-name descriptor on different interfaces are a recorded known finding. An object whose own interface has members called Get / Set / GetAll next to its properties.',
   note='Ambiguous empty-interface access may choose either declaration; wrongly typed Sets are outside the statement.'),
}

# wave 11: the ladder of counts (mcx/scale.py) each check walks
SCALE = {
 'C01': 'Arrays of nine element kinds and strings with every element count / length of the ladder 127..257, 1023..1025, 4095..4097, 8191..8193 (65534..65537 thorough).',
 'C02': 'The C01 ladder of element counts and lengths in both directions against the reference codec; signature values and variant signatures of 126..255 characters.',
 'C03': '66000 (140000 thorough) messages built in a row: every serial fresh and non-zero.',
 'C05': 'Aftermath: every hostile family member presented 70 times, then valid messages (40 nested variants, 31 arrays of 31 structs, the base messages) must decode as in the fresh process.',
 'C06': '9..257 cookie exchanges waiting at the same time on one keyring, answered in three orders, finished ones replaced by new ones.',
 'C07': 'Keyring files holding 1..1000 cookies of other exchanges ahead of / behind the one the challenge names.',
 'C08': 'A call outstanding while 254..257 / 65534..65537 further messages are built in the process (unsent signals, or answered calls on the same connection), then a second call, answers in either order.',
 'C09': 'A call outstanding while 254..257 / 65534..65537 further messages are built, a second call, then the loss.',
 'C10': '60..600 cycles of export / call own and foreign member / unexport of short-lived objects of two classes on one connection.',
 'C11': 'Scenarios in which 254..65536 (65537 thorough) messages are built between a held call and the next one, every delivery order.',
 'C12': 'A long-lived router: 254..257 / 65534..65537 rules added and removed between two rules that stay.',
 'C13': 'A long-lived bus: 254..257 / 65534..65537 connections come and go (each says Hello) between the owner and a contender.',
 'C14': 'A long-lived bus: 254..257 / 65534..65537 connections come and go between two that stay (distinct unique names, delivery to each); messages of 2**16, 2**27-8 and exactly 2**27 bytes handed on.',
 'C15': 'A local declaration followed by 127..8193 (65537 thorough) other interfaces declared or learnt from peers must still win without replacement.',
 'C16': '60..400 cycles of export / query / unexport of short-lived objects of two classes beneath a permanent parent.',
 'C20': 'Messages carrying 16..1024 descriptors each, one to three in a row, all descriptors ahead of the first read or each message\'s just before it.',
}
for _k, _v in SCALE.items():
    CHECKS[_k]['text'] += ' ' + _v

# wave 12: legal but unusual use of the API and of the wire format
UNUSUAL = {
 'C01': 'A fifth presentation style: structs as tuple / list subclasses declaring their field order (content in another order), arrays as list subclasses, dict arrays as OrderedDict / dict subclasses, strings, integers and doubles as subclasses whose str() is not their value.',
 'C02': 'The subclassed presentation style of C01 on the encode side; the message task reads every body inside foreign headers with the fields reversed and with unknown field codes first / in the middle / last / twice.',
 'C03': 'The empty body written as every combination of signature None / \'\' and body None / [] / (); non-empty bodies also as tuples and as subclasses of the built-in types.',
 'C04': 'Three pool messages carry header fields with unknown codes (10, 127, 255) and unusual field orders.',
 'C05': 'A copy meter (bytes sliced out of the input and out of slices of it) with budget 4 x len + 4096 and the same scaling rule; families of many empty / small arrays.',
 'C06': 'The same search for buses whose authenticator subclass offers one, two other, or four mechanisms (the REJECTED list must be the offered set).',
 'C07': 'A third transport kind: a UNIX transport that provides IUNIXTransport as an instance, as policy wrappers do.',
 'C08': 'Calls made with message objects of application subclasses of MethodCallMessage next to plain calls, other message types built in between, answers in both orders.',
 'C09': 'Proxy disconnect callbacks that obtain a fresh proxy while the loss is processed are part of the loss alphabet.',
 'C10': 'A derived class overrides, without repeating the decorator, a method its base class bound by decorator.',
 'C11': 'Two scenarios export container-like objects whose truth value is False.',
 'C12': 'Zero-argument signals with the SIGNATURE field present and empty; signals written by the library\'s own emitSignal on another connection handed to a subscribed proxy.',
 'C13': 'One exploration has clients that write the optional SENDER field of their requests themselves.',
 'C14': 'One search uses rules on the first argument (the empty string, a value) and a broadcast whose first argument is empty.',
 'C15': 'Every third definition is introspected on a container-like object whose truth value is False.',
 'C16': 'One pass (and one class of the churn run) uses container-like objects whose truth value is False.',
 'C17': 'Properties declared on a plain mixin before / after DBusObject in the bases, interface named or not.',
 'C18': 'Valid names in every slot but the path also as instances of a str subclass whose str() differs from its content.',
 'C19': 'Atoms and dict keys include str / int / float subclasses whose str() is not their value; OrderedDict, list-subclass and namedtuple values.',
 'C20': 'Two bodies name one descriptor twice.',
}
for _k, _v in UNUSUAL.items():
    CHECKS[_k]['text'] += ' ' + _v

# wave 13: lifecycle, ordering, re-entrancy
LIFECYCLE = {
 'C01': 'Ownership: every non-trivial case is decoded, the receiver adds to every container of the result, and the same bytes decoded again give what they gave before; encoding leaves the sender\'s values unchanged.',
 'C02': 'Pairs of reference messages arrive over a connection with the first read ending at every position inside the second.',
 'C03': 'Seven kinds of refused construction are interleaved with the 66000 messages of the serial run.',
 'C04': 'Nested reads with descriptors: the handler of a descriptor-carrying message reads what is still to come.',
 'C05': 'Aftermath also for descriptors: a dropped hostile peer\'s queued descriptors never reach another connection.',
 'C07': 'The application edits the class-level preference list in place (four edits) while a handshake waits for an answer: no mechanism offered twice, none kept in the list skipped, closed at the end.',
 'C08': 'The harness\'s callbacks return values of their own; two configurations with two calls that expect no reply.',
 'C10': 'Lifecycle: a method that unexports its own object and then returns / raises; a held Deferred whose object is unexported, or replaced at its path, before it fires / fails.',
 'C11': 'One scenario re-exports the same instance after unexporting it.',
 'C12': 'One exploration has one-shot handlers that cancel their own rule from inside the delivery.',
 'C14': 'One search lets a connection hold the same rule twice (two AddMatch, one RemoveMatch leaves one).',
 'C15': 'A name learnt from a peer and then described differently twice, every combination of replacement flags.',
 'C16': 'Devices whose computed property exports a further object when GetManagedObjects first reads it.',
 'C17': 'Assigning or setting the value a property already has is an event like any other (one notification).',
 'C18': 'Aftermath: after each of 11 operations that fail and are reported, a list of names is judged as before.',
 'C19': 'Method / Signal objects shared by two interfaces, removed from one, added back, removed from the other: counts checked through both at every step.',
 'C20': 'Nested delivery: the handler of a message takes delivery of everything still to come before it returns, for every admissible arrival order.',
}
for _k, _v in LIFECYCLE.items():
    CHECKS[_k]['text'] += ' ' + _v

# wave 14
W14 = {
 'C01': 'Signature values and variant signatures of 126..255 characters in both byte orders.',
 'C03': 'The serial run builds messages with and without bodies, tries descriptor bodies in returns / errors / signals, and reads the header-field set of the first 3000 messages.',
 'C04': 'The connectionAuthenticated hook reads one more message while the last handshake line is being handled (every cut of the handshake, a message joined behind it).',
 'C05': 'What the process holds after 20 and after 120 presentations of each hostile input may differ by at most 4 KiB.',
 'C06': 'A dictionary of words derived from the attribute names of the authentication classes, bare and with an argument, in each waiting state: an unknown command like any other.',
 'C07': 'Keyring directories of mode 0700 / 0711 / 0710 / 0701.',
 'C08': 'Answers coalesced in one read alternate in byte order.',
 'C09': 'Two connections in one process, each with proxies, callbacks and a call, lost one after the other.',
 'C11': 'Scenarios with comings and goings on the bus (a peer that connected first has left, newcomers have arrived) before the calls.',
 'C12': 'The match-everything rule is among the history specs; the history search keys its states on the connection\'s own rule tables too.',
 'C13': 'A peer without Hello that calls somebody else, asks for a name in the same / the next read and goes away owns nothing afterwards.',
 'C16': 'Every subset of eight paths whose child names begin with characters of the parent path.',
 'C17': 'After a successful Get, the same text split elsewhere between interface and property name must fail.',
 'C18': 'One string as interface and destination of a call / signal for every enumerated string.',
 'C20': 'Descriptors inside variants of calls, in return values and in signals: refused, or written with the descriptors attached and declared.',
}
for _k, _v in W14.items():
    CHECKS[_k]['text'] += ' ' + _v

# wave 15: less-visited entry points and keyword options
W15 = {
 'C05': 'Well-formed messages whose name-carrying fields hold long hostile names go through the bus, each first in a child process that is abandoned after 30 s.',
 'C07': 'Every fifth busy-keyring case has the keyring directory as a symbolic link to a protected directory.',
 'C09': 'A call made with expectReply=False and a timeout is part of the loss alphabet.',
 'C10': 'An application object exported through a registered IDBusObject adapter is among the lifecycle cases.',
 'C12': 'Every proxy case once more with another definition known under the same interface name.',
 'C13': 'The client-API search passes the requestBusName options by position in every second request.',
 'C14': 'The Bus object\'s own broadcastSignal / sendSignal with every combination of the path / interface keywords against four rules.',
 'C15': 'For objects with several interfaces, calls naming no interface go through a proxy built from the XML and one built from the declarations: same decision, same call.',
 'C16': 'Two interfaces sharing property names with different access, both declaration orders.',
 'C17': 'One exploration with other definitions known under the same three interface names.',
 'C18': 'Five more constructor slots with the other optional keywords (sender, body, flags) given.',
 'C19': 'Method(name, sig) / Method(name, returns=sig) / added later / Method(name) / Signal(name) counted for every signature.',
 'C20': 'Every sender sequence once more with the first, the last and all calls made with expectReply=False.',
}
for _k, _v in W15.items():
    CHECKS[_k]['text'] += ' ' + _v

REASON_TODO = 'check not built yet in this snapshot (planned in DESIGN.md section 3); nothing is claimed for it'

def main():
    props = [json.loads(l)['id'] for l in open(os.path.join(HERE, 'properties.jsonl'))]
    checks = []
    for pid in props:
        if pid not in CHECKS or not os.path.exists(os.path.join(HERE, 'mcx', 'checks', pid.lower() + '.py')):
            continue
        c = CHECKS[pid]
        checks.append({
            'property_id': pid,
            'quick_cmd': './check %s --tier quick' % pid,
            'thorough_cmd': './check %s --tier thorough' % pid,
            'evidence_file': '/verif/evidence/%s.json' % pid,
            'replay_cmd_template': './check %s --replay {path}' % pid,
            'engine': c['engine'],
            'level_claimed': {'category': 'model_checking', 'text': c['text'], 'design_ref': c['ref']},
            'level_note': c['note'],
            'technique': c['technique'],
        })
    claimed = {c['property_id'] for c in checks}
    na = [{'property_id': p, 'reason': REASON_TODO} for p in props if p not in claimed]
    man = {
        'version': 1,
        'setup_cmd': '/venv/bin/python -c "import twisted, zope.interface; print(\'ok\')"',
        'hooks': {
            'guard': 'TXDBUS_VERIF',
            'enable': 'no source hooks exist: every seam is reached from outside (fake transports, virtual clock, module attributes patched in the checker process). ./check exports TXDBUS_VERIF=1 for form.',
            'baseline_off_cmd': 'cd /repo && env -u TXDBUS_VERIF /venv/bin/python -m pytest -ra -q -p no:cacheprovider --timeout=900 --continue-on-collection-errors',
            'source_commits': [],
            'add_only': True,
        },
        'engines': [
            {'name': E1, 'path': 'mcx/space.py', 'serves_properties': [p for p in claimed if CHECKS[p]['engine'] == E1],
             'kind_free_text': 'bounded-exhaustive enumeration of an input grammar; one-step transition system (input -> library call) against a reference model'},
            {'name': E2, 'path': 'mcx/explore.py', 'serves_properties': [p for p in claimed if CHECKS[p]['engine'] == E2],
             'kind_free_text': 'explicit-state / stateless exploration of event histories on the real protocol objects (fake transport, virtual clock), replay-based, state-deduplicated'},
        ],
        'checks': checks,
        'not_applicable': na,
        'notes': 'All checks run the working tree of /repo through ./check (PYTHONPATH=/repo first, bytecode writing off). Known findings: known_findings.txt. Seeded changes used to test the checks: seeded/.',
    }
    json.dump(man, open(os.path.join(HERE, 'MANIFEST.json'), 'w'), indent=1)
    print('claimed:', sorted(claimed), 'not claimed:', len(na))

if __name__ == '__main__':
    main()
