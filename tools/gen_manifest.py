#!/usr/bin/env python3
"""Writes /verif/MANIFEST.json from the table below (so that it always
validates and stays in step with the checks that exist)."""
import json, os

HERE = os.path.dirname(os.path.dirname(os.path.abspath(__file__)))

E1 = 'E1-input-enumeration'
E2 = 'E2-history-explorer'

CHECKS = {
 'C01': dict(engine=E1, ref='DESIGN.md 3/C01', technique='bounded-exhaustive enumeration of the signature grammar x boundary values x byte order x offset, round trip executed on the real marshal/unmarshal',
   text='Every signature sequence up to the node bound (full type alphabet) and a larger bound over a reduced alphabet, with boundary values, four presentation styles, both byte orders and all 8 start offsets, is encoded and decoded by the real code; encoder length, decoder consumption and value identity are checked on every case. Exhaustive within the bound; nothing is sampled.',
   note='Holds for the enumerated bound only (types <= K nodes plus fixed deep/long families). Trusts mcx/refcodec.as_plain for the normalisation the statement names.'),
 'C02': dict(engine=E1, ref='DESIGN.md 3/C02', technique='bounded-exhaustive enumeration compared byte-for-byte with an independent reference codec, both directions',
   text='Same space as C01; the library bytes must equal the bytes of a reference encoder written from the specification, and the reference bytes (including variants of types the library never infers) must decode to the value; plus every (type code, offset) pair of the alignment rule.',
   note='Trusts mcx/refcodec.py as a reading of the specification; bound as C01.'),
 'C18': dict(engine=E1, ref='DESIGN.md 3/C18', technique='exhaustive enumeration of all strings up to length 6 over a character-class alphabet against hand-written grammar recognisers',
   text='All 1.1 million strings of length <= 6 over one representative per character class are given to the five validators twice (in both orders, so cross-validator caches show) and compared with recognisers written from the specification; the 255-byte boundary; every string of length <= 3 (4 thorough) in each of the 11 name-carrying constructor slots with the wire content re-read by the reference parser.',
   note='Character classes are represented by one member each; longer names only at the length boundary. Trusts mcx/ref/grammar.py.'),
}

REASON_TODO = 'check not built yet in this snapshot (planned in DESIGN.md section 3); nothing is claimed for it'

def main():
    props = [json.loads(l)['id'] for l in open(os.path.join(HERE, 'properties.jsonl'))]
    checks = []
    for pid in props:
        if pid not in CHECKS or not os.path.exists(os.path.join(HERE, 'mcx', 'checks', pid.lower() + '.py')):
            continue
        c = CHECKS[pid]
        checks.append({
            'property_id': pid,
            'quick_cmd': './check %s --tier quick' % pid,
            'thorough_cmd': './check %s --tier thorough' % pid,
            'evidence_file': '/verif/evidence/%s.json' % pid,
            'replay_cmd_template': './check %s --replay {path}' % pid,
            'engine': c['engine'],
            'level_claimed': {'category': 'model_checking', 'text': c['text'], 'design_ref': c['ref']},
            'level_note': c['note'],
            'technique': c['technique'],
        })
    claimed = {c['property_id'] for c in checks}
    na = [{'property_id': p, 'reason': REASON_TODO} for p in props if p not in claimed]
    man = {
        'version': 1,
        'setup_cmd': '/venv/bin/python -c "import twisted, zope.interface; print(\'ok\')"',
        'hooks': {
            'guard': 'TXDBUS_VERIF',
            'enable': 'no source hooks exist: every seam is reached from outside (fake transports, virtual clock, module attributes patched in the checker process). ./check exports TXDBUS_VERIF=1 for form.',
            'baseline_off_cmd': 'cd /repo && env -u TXDBUS_VERIF /venv/bin/python -m pytest -ra -q -p no:cacheprovider --timeout=900 --continue-on-collection-errors',
            'source_commits': [],
            'add_only': True,
        },
        'engines': [
            {'name': E1, 'path': 'mcx/space.py', 'serves_properties': [p for p in claimed if CHECKS[p]['engine'] == E1],
             'kind_free_text': 'bounded-exhaustive enumeration of an input grammar; one-step transition system (input -> library call) against a reference model'},
            {'name': E2, 'path': 'mcx/explore.py', 'serves_properties': [p for p in claimed if CHECKS[p]['engine'] == E2],
             'kind_free_text': 'explicit-state / stateless exploration of event histories on the real protocol objects (fake transport, virtual clock), replay-based, state-deduplicated'},
        ],
        'checks': checks,
        'not_applicable': na,
        'notes': 'All checks run the working tree of /repo through ./check (PYTHONPATH=/repo first, bytecode writing off). Known findings: known_findings.txt. Seeded changes used to test the checks: seeded/.',
    }
    json.dump(man, open(os.path.join(HERE, 'MANIFEST.json'), 'w'), indent=1)
    print('claimed:', sorted(claimed), 'not claimed:', len(na))

if __name__ == '__main__':
    main()
