#!/bin/bash
# determinism.sh [checks...] : runs each check twice (different VERIF_SEED) and compares the coverage counters
cd /verif
for c in ${@:-C01 C02 C03 C04 C05 C06 C07 C08 C09 C10 C11 C12 C13 C14 C15 C16 C17 C18 C19 C20}; do
  VERIF_SEED=3 ./check $c > /dev/null 2>&1; a=$(python3 -c "import json;c=json.load(open('evidence/$c.json'))['coverage'];print(c['states'],c['transitions'],c['evaluations'],c['distinct_nontrivial'],c['distinct_outcomes'],sorted((k,v.get('states'),v.get('transitions')) for k,v in c['parts'].items()))")
  VERIF_SEED=11 ./check $c > /dev/null 2>&1; b=$(python3 -c "import json;c=json.load(open('evidence/$c.json'))['coverage'];print(c['states'],c['transitions'],c['evaluations'],c['distinct_nontrivial'],c['distinct_outcomes'],sorted((k,v.get('states'),v.get('transitions')) for k,v in c['parts'].items()))")
  if [ "$a" == "$b" ]; then echo "$c deterministic: ${a:0:80}"; else echo "$c DIFFERS"; echo "  $a" | cut -c1-300; echo "  $b" | cut -c1-300; fi
done
